//go:build verif

package iam

// Fakes of the r4vp slice (OpenID4VP response endpoint -> token endpoint -> DPoP check). This directory is loaded
// INSTEAD of harness/auth/api/iam; what is shared with it was copied under the same names (hC02...), what is new
// is called hVP....

import (
	"context"
	"crypto"
	"errors"
	"net/http"
	"net/url"
	"strings"
	"time"

	"github.com/lestrrat-go/jwx/v2/jwk"
	"github.com/lestrrat-go/jwx/v2/jws"
	"github.com/lestrrat-go/jwx/v2/jwt"
	ssi "github.com/nuts-foundation/go-did"
	"github.com/nuts-foundation/go-did/did"
	"github.com/nuts-foundation/go-did/vc"
	"github.com/nuts-foundation/nuts-node/auth"
	iamclient "github.com/nuts-foundation/nuts-node/auth/client/iam"
	"github.com/nuts-foundation/nuts-node/auth/oauth"
	"github.com/nuts-foundation/nuts-node/crypto/dpop"
	"github.com/nuts-foundation/nuts-node/storage"
	"github.com/nuts-foundation/nuts-node/vcr"
	"github.com/nuts-foundation/nuts-node/vcr/pe"
	"github.com/nuts-foundation/nuts-node/vcr/signature/proof"
	"github.com/nuts-foundation/nuts-node/vcr/verifier"
	"github.com/nuts-foundation/nuts-node/vdr/didsubject"
)

// ---------------------------------------------------------------------------------------------
// Clock. time.Now() in the code under test reads hC02Clock (the engine calls vhNow for time.Now).

var hC02Clock time.Time

func vhNow() time.Time { return hC02Clock }

// ---------------------------------------------------------------------------------------------
// Session database fake (copy of harness/auth/api/iam, plus the value semantics of the JSON round trip for the
// pointer members of OAuthSession / AccessToken): an in-memory store per key prefix whose entries live for
// exactly the TTL that the caller of GetStore passed (entry put at instant p with TTL d is readable at instant n
// iff n <= p+d).

type hC02Entry struct {
	key      string
	val      interface{}
	deadline time.Time
}

type hC02Put struct {
	store string
	key   string
	ttl   time.Duration
}

// hVPOp is one operation on the session database, in program order.
type hVPOp struct {
	op    string // "get" "put" "delete"
	store string
	key   string
}

type hC02DB struct {
	storage.SessionDatabase
	data    map[string][]hC02Entry
	puts    []hC02Put
	deletes []hC02Put
	ops     []hVPOp
	failPut map[string]bool // store name -> Put fails
}

func newHC02DB() *hC02DB { return &hC02DB{data: map[string][]hC02Entry{}, failPut: map[string]bool{}} }

func (d *hC02DB) GetStore(ttl time.Duration, keys ...string) storage.SessionStore {
	return &hC02Store{db: d, name: strings.Join(keys, "/"), ttl: ttl}
}
func (d *hC02DB) Close() {}

// live returns the index of the live entry for key at the current clock, or -1.
func (d *hC02DB) live(store, key string) int {
	es := d.data[store]
	for i := len(es) - 1; i >= 0; i-- {
		if es[i].key == key {
			if hC02Clock.After(es[i].deadline) {
				return -1
			}
			return i
		}
	}
	return -1
}

func (d *hC02DB) putCount(store string) int {
	n := 0
	for _, p := range d.puts {
		if p.store == store {
			n++
		}
	}
	return n
}

// lastPutKey returns the key of the last Put into store ("" if none).
func (d *hC02DB) lastPutKey(store string) string {
	k := ""
	for _, p := range d.puts {
		if p.store == store {
			k = p.key
		}
	}
	return k
}

// opIndex returns the index in program order of the first operation (op, store, key), or -1.
func (d *hC02DB) opIndex(op, store, key string) int {
	for i, o := range d.ops {
		if o.op == op && o.store == store && o.key == key {
			return i
		}
	}
	return -1
}

type hC02Store struct {
	db   *hC02DB
	name string
	ttl  time.Duration
}

func (s *hC02Store) Delete(key string) error {
	s.db.ops = append(s.db.ops, hVPOp{"delete", s.name, key})
	s.db.deletes = append(s.db.deletes, hC02Put{store: s.name, key: key})
	es := s.db.data[s.name]
	var out []hC02Entry
	for _, e := range es {
		if e.key != key {
			out = append(out, e)
		}
	}
	s.db.data[s.name] = out
	return nil
}

func (s *hC02Store) Exists(key string) bool { return s.db.live(s.name, key) >= 0 }

// hVPCloneConsumer: what a JSON round trip does to the *PEXConsumer of a session (fresh maps, same entries).
func hVPCloneConsumer(c *PEXConsumer) *PEXConsumer {
	if c == nil {
		return nil
	}
	out := &PEXConsumer{RequiredPresentationDefinitions: c.RequiredPresentationDefinitions,
		Submissions: map[string]pe.PresentationSubmission{}, SubmittedEnvelopes: map[string]pe.Envelope{}}
	for k, v := range c.Submissions {
		out.Submissions[k] = v
	}
	for k, v := range c.SubmittedEnvelopes {
		out.SubmittedEnvelopes[k] = v
	}
	return out
}

func (s *hC02Store) Get(key string, target interface{}) error {
	s.db.ops = append(s.db.ops, hVPOp{"get", s.name, key})
	i := s.db.live(s.name, key)
	if i < 0 {
		return storage.ErrNotFound
	}
	v := s.db.data[s.name][i].val
	// the JSON round trip of the real store, for the value types this slice stores
	switch t := target.(type) {
	case *bool:
		*t = v.(bool)
	case *string:
		*t = v.(string)
	case *struct{}:
		_ = v.(struct{})
	case *AccessToken:
		tok := v.(AccessToken)
		if tok.DPoP != nil {
			// dpop.DPoP marshals as its compact serialisation and is parsed (dpop.Parse) again when read
			again, err := dpop.Parse(tok.DPoP.String())
			if err != nil {
				return err
			}
			tok.DPoP = again
		}
		*t = tok
	case *OAuthSession:
		sess := v.(OAuthSession)
		sess.OpenID4VPVerifier = hVPCloneConsumer(sess.OpenID4VPVerifier)
		*t = sess
	default:
		panic("hC02Store.Get: target type not modelled")
	}
	return nil
}

func (s *hC02Store) Put(key string, value interface{}, options ...storage.SessionOption) error {
	s.db.ops = append(s.db.ops, hVPOp{"put", s.name, key})
	ttl := s.ttl
	for _, o := range options {
		// the only option is storage.WithTTL(ttl): a closure over the duration (its parameter type is unexported)
		ttl = vFreeVar(o, 0).(time.Duration)
	}
	if s.db.failPut[s.name] {
		return errors.New("harness: store unavailable")
	}
	if sess, ok := value.(OAuthSession); ok {
		sess.OpenID4VPVerifier = hVPCloneConsumer(sess.OpenID4VPVerifier)
		value = sess
	}
	s.db.puts = append(s.db.puts, hC02Put{store: s.name, key: key, ttl: ttl})
	if ttl <= 0 {
		// as the real store: nothing is stored for a non-positive TTL
		return nil
	}
	var out []hC02Entry
	for _, e := range s.db.data[s.name] {
		if e.key != key {
			out = append(out, e)
		}
	}
	s.db.data[s.name] = append(out, hC02Entry{key: key, val: value, deadline: hC02Clock.Add(ttl)})
	return nil
}

func (s *hC02Store) GetAndDelete(key string, target interface{}) error {
	if err := s.Get(key, target); err != nil {
		return err
	}
	return s.Delete(key)
}

type hC02Engine struct {
	storage.Engine
	db storage.SessionDatabase
}

func (e hC02Engine) GetSessionDatabase() storage.SessionDatabase { return e.db }

// ---------------------------------------------------------------------------------------------
// Other collaborators of Wrapper.

type hC02Auth struct {
	auth.AuthenticationServices
	publicURL *url.URL
}

func (a hC02Auth) PublicURL() *url.URL { return a.publicURL }

// IAMClient: the remote wallet's OpenID configuration cannot be fetched (only reached when a further OpenID4VP
// flow towards an organization wallet has to be started).
func (a hC02Auth) IAMClient() iamclient.Client { return hVPIAMClient{} }

type hVPIAMClient struct{ iamclient.Client }

func (hVPIAMClient) OpenIDConfiguration(ctx context.Context, issuer string) (*oauth.OpenIDConfiguration, error) {
	return nil, errors.New("harness: remote party unreachable")
}

type hC02VCR struct {
	vcr.VCR
	v verifier.Verifier
}

func (v hC02VCR) Verifier() verifier.Verifier { return v.v }

// hVPSubjects: the node manages one DID per subject.
type hVPSubjects struct{ didsubject.Manager }

func (hVPSubjects) ListDIDs(_ context.Context, subject string) ([]did.DID, error) {
	return []did.DID{{Method: "web", ID: "own-" + subject}}, nil
}

// hVPJar: the real request-object construction (plain Go), nothing else of the JAR interface is reached.
type hVPJar struct{ JAR }

func (hVPJar) Create(client did.DID, clientID string, audience string, modifier requestObjectModifier) jarRequest {
	return createJarRequest(client, clientID, audience, modifier)
}

// ---------------------------------------------------------------------------------------------
// Random values. crypto.GenerateNonce (256 random bits, base64url) is replaced by distinct, concrete values: real
// nonces are unique with overwhelming probability, and symbolic random bytes that pass through base64 tables and
// then serve as store keys make every later solver query very slow.
//verif:stub github.com/nuts-foundation/nuts-node/crypto.GenerateNonce => hC02GenerateNonce

var hC02NonceCount int

func hC02GenerateNonce() string {
	hC02NonceCount++
	return "random-" + string(rune('A'+hC02NonceCount/26)) + string(rune('a'+hC02NonceCount%26))
}

// ---------------------------------------------------------------------------------------------
// Presentations.

//verif:stub (github.com/nuts-foundation/go-did/vc.VerifiablePresentation).UnmarshalProofValue => hC02UnmarshalProofValue

// hC02UnmarshalProofValue replaces go-did's json.Marshal(vp.Proof)+json.Unmarshal(target) round trip.
// The harness stores the proofs of a JSON-LD presentation already typed (proof.LDProof) in vp.Proof,
// so decoding into *[]proof.LDProof is the identity on those elements.
func hC02UnmarshalProofValue(vp vc.VerifiablePresentation, target interface{}) error {
	switch t := target.(type) {
	case *[]proof.LDProof:
		out := make([]proof.LDProof, 0, len(vp.Proof))
		for _, p := range vp.Proof {
			out = append(out, p.(proof.LDProof))
		}
		*t = out
		return nil
	}
	panic("hC02UnmarshalProofValue: target type not modelled")
}

// hC02LdVP builds a JSON-LD presentation (as produced by vc.ParseVerifiablePresentation for a "{...}"
// document) carrying exactly the given proofs.
func hC02LdVP(proofs ...proof.LDProof) vc.VerifiablePresentation {
	vp := vc.VerifiablePresentation{
		Type: []ssi.URI{vc.VerifiablePresentationTypeV1URI()},
	}
	for _, p := range proofs {
		vp.Proof = append(vp.Proof, p)
	}
	vSetField(&vp, "format", vc.JSONLDPresentationProofFormat)
	return vp
}

//verif:stub (github.com/nuts-foundation/go-did/vc.VerifiableCredential).SubjectDID => hC02SubjectDID

// hC02CredSubject is how the harness stores a credentialSubject (go-did decodes the JSON member `id`).
type hC02CredSubject struct{ ID did.DID }

// hC02SubjectDID follows the documented contract of go-did's VerifiableCredential.SubjectDID (which decodes
// credentialSubject through encoding/json into a function-local type): error when there is no subject,
// when the subjects' ids differ, or when the id is empty; else the common id.
func hC02SubjectDID(c vc.VerifiableCredential) (*did.DID, error) {
	if len(c.CredentialSubject) < 1 {
		return nil, errors.New("unable to get subject DID from VC: there must be at least 1 credentialSubject")
	}
	subjectID := c.CredentialSubject[0].(hC02CredSubject).ID
	for _, s := range c.CredentialSubject {
		if !subjectID.Equals(s.(hC02CredSubject).ID) {
			return nil, errors.New("unable to get subject DID from VC: credential subjects have the same ID")
		}
	}
	if subjectID.Empty() {
		return nil, errors.New("unable to get subject DID from VC: credential subjects have no ID")
	}
	return &subjectID, nil
}

//verif:stub github.com/nuts-foundation/nuts-node/vcr/pe.ParseEnvelope => hC02ParseEnvelope
//verif:stub github.com/nuts-foundation/nuts-node/vcr/pe.ParsePresentationSubmission => hC02ParseSubmission
//verif:stub (github.com/nuts-foundation/nuts-node/vcr/pe.PresentationSubmission).Validate => hC02SubmissionValidate
//verif:stub (github.com/nuts-foundation/nuts-node/vcr/pe.PresentationSubmission).Resolve => hC02SubmissionResolve

// Parsing of the vp_token / presentation_submission parameters and the PEX engine (C12) are replaced by
// harness-chosen outcomes, keyed by the parameter text (so that two requests of one harness can differ).
var (
	hVPEnvelopes   map[string]*pe.Envelope               // vp_token text -> envelope; absent: ParseEnvelope fails
	hVPSubmissions map[string]*pe.PresentationSubmission // presentation_submission text -> submission; absent: parse error
	hVPPEXVerdict  map[string]bool                       // submission id -> verdict of Validate
	// lazily drawn parameters: the function is called when the code under test first parses the text (so that
	// requests refused earlier do not multiply by the shapes of what they never look at)
	hVPEnvelopeFns    map[string]func() *pe.Envelope
	hVPSubmissionFns  map[string]func() *pe.PresentationSubmission
	hC02ValidatedDefs []string // definition ids Validate was called with
	hVPValidatedSubs  []string // submission ids Validate was called with
)

func hVPResetParsers() {
	hVPEnvelopes = map[string]*pe.Envelope{}
	hVPSubmissions = map[string]*pe.PresentationSubmission{}
	hVPPEXVerdict = map[string]bool{}
	hVPEnvelopeFns = map[string]func() *pe.Envelope{}
	hVPSubmissionFns = map[string]func() *pe.PresentationSubmission{}
	hC02ValidatedDefs, hVPValidatedSubs = nil, nil
}

func hC02ParseEnvelope(b []byte) (*pe.Envelope, error) {
	if f := hVPEnvelopeFns[string(b)]; f != nil {
		hVPEnvelopeFns[string(b)] = nil
		hVPEnvelopes[string(b)] = f()
	}
	e := hVPEnvelopes[string(b)]
	if e == nil {
		return nil, errors.New("harness: unparsable envelope")
	}
	return e, nil
}

func hC02ParseSubmission(b []byte) (*pe.PresentationSubmission, error) {
	if f := hVPSubmissionFns[string(b)]; f != nil {
		hVPSubmissionFns[string(b)] = nil
		hVPSubmissions[string(b)] = f()
	}
	s := hVPSubmissions[string(b)]
	if s == nil {
		return nil, errors.New("harness: unparsable submission")
	}
	return s, nil
}

func hC02SubmissionValidate(s pe.PresentationSubmission, envelope pe.Envelope, definition pe.PresentationDefinition) (map[string]vc.VerifiableCredential, error) {
	hC02ValidatedDefs = append(hC02ValidatedDefs, definition.Id)
	hVPValidatedSubs = append(hVPValidatedSubs, s.Id)
	if !hVPPEXVerdict[s.Id] {
		return nil, errors.New("harness: submission does not match definition")
	}
	return map[string]vc.VerifiableCredential{}, nil
}

func hC02SubmissionResolve(s pe.PresentationSubmission, envelope pe.Envelope) (map[string]vc.VerifiableCredential, error) {
	return map[string]vc.VerifiableCredential{}, nil
}

type hC02VerifyCall struct {
	id                      string
	verifyVCs, allowUntrust bool
	validAtNil              bool
	at                      int // number of session database operations before the call
}

type hC02Verifier struct {
	verifier.Verifier
	verdict map[string]bool
	calls   []hC02VerifyCall
	db      *hC02DB
}

func (v *hC02Verifier) VerifyVP(presentation vc.VerifiablePresentation, verifyVCs bool, allowUntrustedVCs bool, validAt *time.Time) ([]vc.VerifiableCredential, error) {
	id := presentation.ID.String()
	v.calls = append(v.calls, hC02VerifyCall{id: id, verifyVCs: verifyVCs, allowUntrust: allowUntrustedVCs, validAtNil: validAt == nil, at: len(v.db.ops)})
	if !v.verdict[id] {
		return nil, errors.New("harness: presentation or credential invalid")
	}
	return presentation.VerifiableCredential, nil
}

func (v *hC02Verifier) verifiedFully(id string) bool {
	for _, c := range v.calls {
		if c.id == id && c.verifyVCs && c.allowUntrust && c.validAtNil {
			return true
		}
	}
	return false
}

// hVPPres describes one presentation of an authorization response.
type hVPPres struct {
	id        string
	challenge string // "" = proof without challenge
	domain    string // "" = proof without domain
	subjectID string // method-specific id of the credential subject did:web:<id>; the signer is did:web:a. "-" = no credential
	verdict   bool   // VerifyVP
}

func hVPBuild(s hVPPres) vc.VerifiablePresentation {
	var p proof.LDProof
	if s.challenge != "" {
		c := s.challenge
		p.Challenge = &c
	}
	if s.domain != "" {
		d := s.domain
		p.Domain = &d
	}
	p.VerificationMethod = ssi.MustParseURI("did:web:a#k")
	vp := hC02LdVP(p)
	id := ssi.MustParseURI(s.id)
	vp.ID = &id
	if s.subjectID != "-" {
		vp.VerifiableCredential = []vc.VerifiableCredential{{CredentialSubject: []interface{}{hC02CredSubject{ID: did.DID{Method: "web", ID: s.subjectID}}}}}
	}
	return vp
}

// ---------------------------------------------------------------------------------------------
// DPoP proofs. Parsing and signature validation (jwx) are out of scope: dpop.Parse is replaced by a table from
// header text to a value object with the members the code under test reads (jti, htm, htu, ath, key thumbprint).

//verif:stub github.com/nuts-foundation/nuts-node/crypto/dpop.Parse => hVPDPoPParse

type hVPProof struct {
	jti, htm, htu string
	ath           interface{} // nil = claim absent
	thumb         []byte      // SHA-256 thumbprint of the public key in the jwk header
}

var hVPProofs map[string]hVPProof // header text -> proof; absent: dpop.Parse fails

type hVPJWK struct {
	jwk.Key
	thumb []byte
}

func (k hVPJWK) Thumbprint(crypto.Hash) ([]byte, error) { return k.thumb, nil }

type hVPHeaders struct {
	jws.Headers
	key jwk.Key
}

func (h hVPHeaders) JWK() jwk.Key { return h.key }

type hVPToken struct {
	jwt.Token
	p hVPProof
}

func (t hVPToken) JwtID() string { return t.p.jti }
func (t hVPToken) Get(name string) (interface{}, bool) {
	switch name {
	case dpop.HTMKey:
		return t.p.htm, true
	case dpop.HTUKey:
		return t.p.htu, true
	case dpop.ATHKey:
		return t.p.ath, t.p.ath != nil
	case jwt.JwtIDKey:
		return t.p.jti, true
	}
	return nil, false
}

func hVPDPoPParse(s string) (*dpop.DPoP, error) {
	p, ok := hVPProofs[s]
	if !ok {
		return nil, errors.Join(dpop.ErrInvalidDPoP, errors.New("harness: invalid proof"))
	}
	d := &dpop.DPoP{Token: hVPToken{p: p}, Headers: hVPHeaders{key: hVPJWK{thumb: p.thumb}}}
	vSetField(d, "raw", s)
	return d, nil
}

// hVPCtx: request context of the token endpoint; dpopHeader "" = no DPoP header.
func hVPCtx(dpopHeader string) context.Context {
	req := &http.Request{Header: http.Header{}}
	if dpopHeader != "" {
		req.Header["Dpop"] = []string{dpopHeader}
	}
	return context.WithValue(context.Background(), httpRequestContextKey{}, req)
}

func containsStr(s, sub string) bool {
	for i := 0; i+len(sub) <= len(s); i++ {
		if s[i:i+len(sub)] == sub {
			return true
		}
	}
	return false
}
