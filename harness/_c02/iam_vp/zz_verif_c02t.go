//go:build verif

package iam

import (
	"context"
	"crypto/sha256"
	"net/http"
	"time"
)

// hC02B64Sym maps a six-bit group to its symbol in the URL-safe alphabet of RFC 4648 section 5 (Table 2),
// by ranges (no table lookup: a symbolic table index would fork).
func hC02B64Sym(v uint) byte {
	c := byte('_')
	if v < 26 {
		c = 'A' + byte(v)
	} else if v < 52 {
		c = 'a' + byte(v-26)
	} else if v < 62 {
		c = '0' + byte(v-52)
	} else if v == 62 {
		c = '-'
	}
	return c
}

// hC02B64URL is an independently written unpadded base64url encoder (RFC 4648 section 5).
func hC02B64URL(in []byte) string {
	var out []byte
	acc, bits := uint(0), 0
	for _, b := range in {
		acc = (acc<<8 | uint(b)) & 0xffff
		bits += 8
		for bits >= 6 {
			bits -= 6
			out = append(out, hC02B64Sym((acc>>uint(bits))&63))
		}
	}
	if bits > 0 {
		out = append(out, hC02B64Sym((acc<<uint(6-bits))&63))
	}
	return string(out)
}

func hVPAth(token string) string {
	h := sha256.Sum256([]byte(token))
	return hC02B64URL(h[:])
}

func hVPIntrospectCtx() context.Context {
	req := &http.Request{Header: http.Header{"Content-Type": []string{"application/x-www-form-urlencoded"}}}
	return context.WithValue(context.Background(), httpRequestContextKey{}, req)
}

// hVPCodeSession stores, through the real code store, the session that the response endpoint leaves behind a code.
func hVPCodeSession(w hVPWorld, code, client, scope string) {
	s := hVPSessionOf(0, client, scope, hVPRedirect)
	s.PKCEParams = PKCEParams{Challenge: hVPAth("verifier"), ChallengeMethod: "S256"} // BASE64URL(SHA256(verifier)), same encoding as ath
	vAssert(w.r.oauthCodeStore().Put(code, s) == nil, "H02t.setup: cannot store the code session")
}

func hVPTokenRequest(w hVPWorld, code, client, dpopHeader string) (HandleTokenRequest200JSONResponse, bool) {
	verifier := "verifier"
	resp, err := w.r.handleAccessTokenRequest(hVPCtx(dpopHeader), HandleTokenRequestFormdataRequestBody{Code: &code, CodeVerifier: &verifier, ClientId: &client})
	ok200, is200 := resp.(HandleTokenRequest200JSONResponse)
	return ok200, err == nil && is200
}

// hVPResourceURLs: what the resource server may report as the request URL / a proof may carry as htu; class = the
// resource they denote (the comparison ignores scheme, port, query and fragment).
var hVPResourceURLs = []string{"https://r/x", "https://r:8443/x?q=1#f", "https://r/y", "https://q/x"}
var hVPResourceClass = []int{0, 0, 1, 2}

// H02t: code -> token (DPoP proof "p0" at the token endpoint, or none) -> introspection -> the resource server's
// DPoP check (ValidateDPoPProof) for a proof "p1" presented with the access token, with the thumbprint that
// introspection reported.
func H02t() {
	w := hVPNewWorld()
	r, db := w.r, w.db
	hC02Clock = time.Unix(hVPT0, 0)
	vTag("session.client")
	sessClient := vString(1)
	vTag("session.scope")
	sessScope := vString(1)
	hVPCodeSession(w, "code", sessClient, sessScope)

	// the proofs: p0 for the token endpoint, p1 for the resource request. Arbitrary keys (3-byte "thumbprints").
	vTag("p0.thumb")
	thumb0 := vBytes(3)
	vTag("p1.thumb")
	thumb1 := vBytes(3)
	vTag("p1.htm")
	htm := vString(3)
	htuIdx := vChoice(len(hVPResourceURLs))
	var ath interface{}
	athClass := vChoice(4)
	hVPProofs = map[string]hVPProof{"p0": {jti: "j0", htm: "POST", htu: "https://n/oauth2/s/token", thumb: thumb0}}

	dpopHeader := ""
	switch vChoice(3) {
	case 1:
		dpopHeader = "p0"
	case 2:
		dpopHeader = "unparsable"
	}
	tokResp, issued := hVPTokenRequest(w, "code", sessClient, dpopHeader)
	if !issued {
		vCover("refused-invalid-proof")
		vAssert(dpopHeader == "unparsable", "H02t.valid_request_refused: a valid token request was refused")
		vAssert(db.putCount("serveraccesstoken") == 0, "H02t.no_token_on_failure: a token was stored although the request was refused")
		return
	}
	vAssert(dpopHeader != "unparsable", "H02t.dpop_valid: token issued although the DPoP header was invalid")
	var tok AccessToken
	vAssert(r.accessTokenServerStore().Get(tokResp.AccessToken, &tok) == nil, "H02t.token_retrievable: returned access token is not in the token store")
	vAssert(tok.ClientId == sessClient, "H02t.token_client: client of the token is not the client of the session")
	vAssert(tok.Scope == sessScope && tokResp.Scope != nil && *tokResp.Scope == sessScope, "H02t.token_scope: scope of the token is not the scope of the session")
	vAssert(tok.Issuer == hVPServerURL, "H02t.token_issuer: issuer is not this authorization server")
	vAssert((tok.DPoP != nil) == (dpopHeader == "p0"), "H02t.token_key_binding: key binding of the token does not follow the DPoP header")

	// introspection
	iresp, err := r.IntrospectAccessToken(hVPIntrospectCtx(), IntrospectAccessTokenRequestObject{Body: &IntrospectAccessTokenFormdataRequestBody{Token: tokResp.AccessToken}})
	intro, is200 := iresp.(IntrospectAccessToken200JSONResponse)
	vAssert(err == nil && is200 && intro.Active, "H02t.introspection_active: a fresh token is not reported active")
	vAssert(intro.ClientId != nil && *intro.ClientId == sessClient && intro.Scope != nil && *intro.Scope == sessScope && intro.Iss != nil && *intro.Iss == hVPServerURL,
		"H02t.introspection_fields: introspection does not report the session's client, scope and this issuer")
	if dpopHeader == "" {
		vCover("bearer")
		vAssert(tokResp.TokenType == "Bearer", "H02t.token_type_bearer: token type is not Bearer")
		vAssert(intro.Cnf == nil, "H02t.no_cnf_for_bearer: introspection reports a key binding for a token issued without proof")
		return
	}
	vCover("dpop-bound")
	vAssert(tokResp.TokenType == "DPoP", "H02t.token_type_dpop: token type is not DPoP")
	vAssert(intro.Cnf != nil && intro.Cnf.Jkt == hC02B64URL(thumb0), "H02t.cnf_is_token_endpoint_key: cnf.jkt is not the thumbprint of the key of the proof presented at the token endpoint")

	// the resource server checks the proof of a resource request against what introspection reported
	presentedToken := tokResp.AccessToken
	if vBool() {
		presentedToken = "another-token"
	}
	switch athClass {
	case 1:
		ath = hVPAth(tokResp.AccessToken)
	case 2:
		ath = hVPAth("another-token")
	case 3:
		ath = 42
	}
	hVPProofs["p1"] = hVPProof{jti: "j1", htm: htm, htu: hVPResourceURLs[htuIdx], ath: ath, thumb: thumb1}
	vTag("method")
	method := vString(3)
	vresp, err := r.ValidateDPoPProof(context.Background(), ValidateDPoPProofRequestObject{Body: &ValidateDPoPProofJSONRequestBody{
		DpopProof: "p1", Thumbprint: intro.Cnf.Jkt, Method: method, Url: hVPResourceURLs[0], Token: presentedToken}})
	v200, isV200 := vresp.(ValidateDPoPProof200JSONResponse)
	vAssert(err == nil && isV200, "H02t.validate_response: DPoP validation failed with an error")
	sameKey := thumb0[0] == thumb1[0] && thumb0[1] == thumb1[1] && thumb0[2] == thumb1[2]
	athOK := (athClass == 1 && presentedToken == tokResp.AccessToken) || (athClass == 2 && presentedToken == "another-token")
	want := sameKey && method == htm && hVPResourceClass[htuIdx] == 0 && athOK
	if v200.Valid {
		vCover("proof-valid")
		vAssert(sameKey, "H02t.same_key: a resource request signed with another key than the token is bound to was accepted")
		vAssert(method == htm, "H02t.method_bound: proof accepted for another HTTP method")
		vAssert(hVPResourceClass[htuIdx] == 0, "H02t.url_bound: proof accepted for another resource")
		vAssert(athOK, "H02t.token_bound: proof accepted although its ath is not the hash of the presented access token")
		vAssert(db.live("nonceonce", "j1") >= 0, "H02t.jti_remembered: the id of an accepted proof was not remembered")
		if htuIdx == 1 {
			vCover("proof-valid-port-query")
		}
	} else {
		vCover("proof-invalid")
		vAssert(v200.Reason != nil, "H02t.reason: invalid without a reason")
		vAssert(!want, "H02t.valid_proof_refused: a proof of the right key for this request and token was refused")
		if !sameKey {
			vCover("proof-other-key")
		}
	}
}

func H02t_twin() {
	w := hVPNewWorld()
	r := w.r
	hC02Clock = time.Unix(hVPT0, 0)
	hVPCodeSession(w, "code", "c", "x")
	thumb := vBytes(3)
	hVPProofs = map[string]hVPProof{"p0": {jti: "j0", htm: "POST", htu: "u", thumb: thumb}}
	tokResp, issued := hVPTokenRequest(w, "code", "c", "p0")
	if !issued {
		return
	}
	hVPProofs["p1"] = hVPProof{jti: "j1", htm: "GET", htu: "https://r/x", ath: hVPAth(tokResp.AccessToken), thumb: thumb}
	vresp, _ := r.ValidateDPoPProof(context.Background(), ValidateDPoPProofRequestObject{Body: &ValidateDPoPProofJSONRequestBody{
		DpopProof: "p1", Thumbprint: hC02B64URL(thumb), Method: "GET", Url: "https://r/x", Token: tokResp.AccessToken}})
	if v200, ok := vresp.(ValidateDPoPProof200JSONResponse); ok && v200.Valid && thumb[0] == 7 {
		vAssert(false, "H02t_twin.reach: reachable")
	}
}
