//go:build verif

package iam

import (
	"context"
	"net/url"
	"time"

	"github.com/nuts-foundation/nuts-node/auth/oauth"
	"github.com/nuts-foundation/nuts-node/vcr/pe"
)

const (
	hVPServerURL = "https://n/oauth2/s" // this authorization server, tenant "s"
	hVPT0        = 1700000000
	hVPRedirect  = "https://c/cb"
	hVPRedirect2 = "https://d/cb"
)

type hVPWorld struct {
	r   Wrapper
	db  *hC02DB
	ver *hC02Verifier
}

func hVPNewWorld() hVPWorld {
	publicURL, _ := url.Parse("https://n")
	db := newHC02DB()
	ver := &hC02Verifier{verdict: map[string]bool{}, db: db}
	hVPResetParsers()
	return hVPWorld{
		r: Wrapper{storageEngine: hC02Engine{db: db}, auth: hC02Auth{publicURL: publicURL}, vcr: hC02VCR{v: ver},
			subjectManager: hVPSubjects{}, jar: hVPJar{}},
		db: db, ver: ver,
	}
}

// hVPSessionOf: the authorization-code session of tenant "s" as handleAuthorizeRequestFromHolder leaves it.
// cfg 0: the scope's policy requires definition "o" (organization wallet) only; 1: "o" and "u" (user wallet),
// none fulfilled; 2: "o" and "u", "o" fulfilled by an earlier flow.
func hVPSessionOf(cfg int, client, scope, redirect string) OAuthSession {
	own := "s"
	mapping := pe.WalletOwnerMapping{pe.WalletOwnerOrganization: pe.PresentationDefinition{Id: "o"}}
	if cfg >= 1 {
		mapping[pe.WalletOwnerUser] = pe.PresentationDefinition{Id: "u"}
	}
	c := newPEXConsumer(mapping)
	if cfg == 2 {
		c.Submissions["o"] = pe.PresentationSubmission{Id: "earlier", DefinitionId: "o"}
		c.SubmittedEnvelopes["o"] = pe.Envelope{}
	}
	return OAuthSession{
		ClientID:          client,
		Scope:             scope,
		OwnSubject:        &own,
		ClientState:       "cs",
		RedirectURI:       redirect,
		OpenID4VPVerifier: c,
		PKCEParams:        PKCEParams{Challenge: "challenge", ChallengeMethod: "S256"},
	}
}

// hVPDrawEnvelope draws an envelope of 0..max presentations. Challenge: absent or "n"+one arbitrary byte (the
// stored nonces are "n1" and "n2"); domain: "https://n/oauth2/"+one arbitrary byte; credential subject
// did:web:<one arbitrary byte> (the signer is did:web:a) or no credential; VerifyVP verdict arbitrary.
func hVPDrawEnvelope(w hVPWorld, prefix string, max int, specs *[]hVPPres) *pe.Envelope {
	n := vLen(0, max)
	env := &pe.Envelope{}
	for i := 0; i < n; i++ {
		s := hVPPres{id: "urn:" + prefix + ":" + string(rune('0'+i))}
		if vBool() {
			vTag("challenge")
			s.challenge = "n" + vString(1)
		}
		vTag("domain")
		s.domain = "https://n/oauth2/" + vString(1)
		if vBool() {
			vTag("subject")
			s.subjectID = vString(1)
		} else {
			s.subjectID = "-"
		}
		s.verdict = vBool()
		w.ver.verdict[s.id] = s.verdict
		env.Presentations = append(env.Presentations, hVPBuild(s))
		*specs = append(*specs, s)
	}
	return env
}

// H02s: one authorization response (direct_post of the wallet) against the pre-state: session "s1" (tenant "s",
// client "cl", scope "sc", redirect URI https://c/cb, client state "cs") with nonce "n1"; a second session "s2" of
// another client "other" (redirect URI https://d/cb) with nonce "n2"; both stored at t0 through the real stores, the
// response arrives d seconds later. Every check has an arbitrary outcome.
func H02s() {
	w := hVPNewWorld()
	r, db := w.r, w.db
	hC02Clock = time.Unix(hVPT0, 0)
	cfg := vChoice(vParam("s_cfgs", 3))
	vAssert(r.oauthClientStateStore().Put("s1", hVPSessionOf(cfg, "cl", "sc", hVPRedirect)) == nil, "H02s.setup: cannot store session")
	vAssert(r.oauthClientStateStore().Put("s2", hVPSessionOf(0, "other", "sc", hVPRedirect2)) == nil, "H02s.setup: cannot store session")
	vAssert(r.oauthNonceStore().Put("n1", "s1") == nil, "H02s.setup: cannot store nonce")
	vAssert(r.oauthNonceStore().Put("n2", "s2") == nil, "H02s.setup: cannot store nonce")

	body := &HandleAuthorizeResponseFormdataRequestBody{}
	state := ""
	if vBool() {
		vTag("state")
		state = "s" + vString(1)
		body.State = &state
	}
	var specs []hVPPres
	envelopeParsed, submissionParsed, submissionRead := false, false, false
	vpClass := vChoice(3) // absent, unparsable, envelope
	if vpClass >= 1 {
		tok := "vp"
		body.VpToken = &tok
		if vpClass == 2 {
			hVPEnvelopeFns["vp"] = func() *pe.Envelope {
				envelopeParsed = true
				return hVPDrawEnvelope(w, "vp", vParam("s_vps", 2), &specs)
			}
		}
	}
	defID := ""
	pex := vBool()
	if vBool() {
		sub := "sub"
		body.PresentationSubmission = &sub
		hVPSubmissionFns["sub"] = func() *pe.PresentationSubmission {
			submissionRead = true
			if !vBool() {
				return nil
			}
			submissionParsed = true
			vTag("definition_id")
			defID = vString(1)
			hVPPEXVerdict["sub"] = pex
			return &pe.PresentationSubmission{Id: "sub", DefinitionId: defID}
		}
	}
	tenant := "s"
	if vBool() {
		tenant = "t"
	}
	vTag("elapsed")
	d := vRange(0, 120)
	hC02Clock = time.Unix(hVPT0+int64(d), 0)
	db.failPut["oauth/code"] = vBool()
	db.ops = nil

	resp, err := r.handleAuthorizeResponseSubmission(context.Background(), HandleAuthorizeResponseRequestObject{SubjectID: tenant, Body: body})

	// ----- reference verdict, written from the property ------------------------------------------------------
	// the session the state names (both stored sessions are genuine: "s2" is simply another client's)
	sessCfg, sessClient, sessRedirect, sessNonce := cfg, "cl", hVPRedirect, "n1"
	if state == "s2" {
		sessCfg, sessClient, sessRedirect, sessNonce = 0, "other", hVPRedirect2, "n2"
	}
	sessionOK := body.State != nil && (state == "s1" || state == "s2") && tenant == "s" && d <= 60
	n := len(specs)
	allNonce, allAudience, allSigner, allVerified, anyNonce := true, true, true, true, false
	for _, s := range specs {
		allNonce = allNonce && s.challenge == sessNonce
		anyNonce = anyNonce || s.challenge == sessNonce
		allAudience = allAudience && s.domain == hVPServerURL
		// signer did:web:a must be the subject of all credentials (a presentation without credentials has none to contradict)
		allSigner = allSigner && (s.subjectID == "-" || s.subjectID == "a")
		allVerified = allVerified && s.verdict
	}
	pending := (sessCfg == 0 && defID == "o") || (sessCfg == 1 && (defID == "o" || defID == "u")) || (sessCfg == 2 && defID == "u")
	completes := (sessCfg == 0 && defID == "o") || (sessCfg == 2 && defID == "u")
	checksOK := sessionOK && envelopeParsed && n >= 1 && allNonce && allAudience && allSigner && allVerified &&
		submissionParsed && pending && pex
	want := checksOK && completes && !db.failPut["oauth/code"]

	codes := db.putCount("oauth/code")
	if sessionOK && envelopeParsed && anyNonce {
		vAssert(db.live("oauth/nonce", sessNonce) < 0, "H02s.nonce_burned: the session's nonce is still redeemable after a response presented it")
	}
	if err == nil {
		ok200, is200 := resp.(HandleAuthorizeResponse200JSONResponse)
		vAssert(is200, "H02s.response_type: success without a 200 response")
		vAssert(checksOK, "H02s.accepted_only_if_all_checks: response accepted although a check failed")
		if codes == 0 {
			vCover("next-flow")
			vAssert(sessCfg == 1, "H02s.next_flow_only_when_pending: no code although every required definition is fulfilled")
			vAssert(!containsStr(ok200.RedirectURI, "code="), "H02s.next_flow_without_code: redirect to the next flow carries a code")
			return
		}
		vCover("code-issued")
		vAssert(codes == 1, "H02s.one_code: more than one authorization code stored")
		vAssert(body.State != nil && (state == "s1" || state == "s2") && tenant == "s", "H02s.state_and_tenant: code issued for an unknown session or another tenant")
		vAssert(d <= 60, "H02s.session_alive: code issued after the session/nonce expired")
		vAssert(envelopeParsed && n >= 1, "H02s.has_presentations: code issued without a presentation")
		for _, s := range specs {
			vAssert(s.challenge == sessNonce, "H02s.nonce_checked: code issued for a presentation that does not carry the session's nonce")
			vAssert(s.domain == hVPServerURL, "H02s.audience_checked: code issued for a presentation addressed to another audience")
			vAssert(s.subjectID == "-" || s.subjectID == "a", "H02s.signer_checked: code issued for a presentation not signed by the subject of its credentials")
			vAssert(s.verdict, "H02s.presentation_verified: code issued for a presentation that does not verify")
			vAssert(w.ver.verifiedFully(s.id), "H02s.verify_called_for_every_presentation: VerifyVP(p, true, true, nil) was not called for a presentation")
		}
		vAssert(submissionParsed && pex, "H02s.pex_fulfilled: code issued without a successful submission validation")
		vAssert(pending, "H02s.pex_definition_required: submission names a definition that the session does not (any longer) require")
		vAssert(len(hC02ValidatedDefs) == 1 && hC02ValidatedDefs[0] == defID, "H02s.pex_validated_against_named_definition: submission not validated exactly once against the definition it names")
		vAssert(completes, "H02s.all_definitions_fulfilled: code issued while a required definition is unfulfilled")
		vAssert(want, "H02s.issued_only_if_all_checks: code issued although a check failed")
		// order: the nonce is burned before anything else of the presentations is trusted
		burn := db.opIndex("delete", "oauth/nonce", sessNonce)
		vAssert(burn >= 0, "H02s.nonce_burned_first: nonce not burned")
		for _, c := range w.ver.calls {
			vAssert(c.at > burn, "H02s.nonce_burned_first: a presentation was verified before the nonce was burned")
		}
		vAssert(db.opIndex("put", "oauth/code", db.lastPutKey("oauth/code")) > burn, "H02s.nonce_burned_first: code stored before the nonce was burned")
		// the code and what it stands for
		code := db.lastPutKey("oauth/code")
		var issued OAuthSession
		vAssert(r.oauthCodeStore().Get(code, &issued) == nil, "H02s.code_retrievable: the code is not in the code store")
		vAssert(issued.ClientID == sessClient && issued.Scope == "sc" && issued.OwnSubject != nil && *issued.OwnSubject == "s", "H02s.code_session: the code stands for another client, scope or tenant than the session's")
		vAssert(issued.PKCEParams.Challenge == "challenge" && issued.PKCEParams.ChallengeMethod == "S256", "H02s.code_pkce: the code does not carry the session's PKCE challenge")
		vAssert(ok200.RedirectURI == sessRedirect+"?code="+code+"&state=cs", "H02s.code_redirect: the code is not sent to the session's redirect URI with the client's state")
		if sessCfg == 2 {
			vCover("code-issued-second-flow")
		}
		if n == 2 {
			vCover("code-issued-2-presentations")
		}
		return
	}
	vCover("refused")
	vAssert(resp == nil, "H02s.error_without_response: error together with a response")
	vAssert(codes == 0, "H02s.no_code_on_failure: an authorization code was stored although the response was refused")
	// (a second flow towards the organization wallet cannot be started in this harness: the remote party is unreachable)
	vAssert(!(checksOK && ((completes && !db.failPut["oauth/code"]) || (sessCfg == 1 && defID == "o"))), "H02s.valid_response_refused: a response passing every check was refused")
	if oe, isOAuth := err.(oauth.OAuth2Error); isOAuth && oe.RedirectURI != nil {
		vCover("refused-with-redirect")
		vAssert(oe.RedirectURI.String() == sessRedirect, "H02s.error_redirect: the error is redirected to another URI than the session's redirect URI")
		vAssert(sessionOK, "H02s.error_redirect_needs_session: an error redirect without a live session of this tenant")
	}
	if sessionOK && envelopeParsed && n >= 1 && allNonce {
		vCover("refused-after-nonce")
		if submissionRead && submissionParsed && allAudience && allSigner && !allVerified {
			vCover("refused-bad-signature")
		}
		if allAudience && allSigner && allVerified && submissionParsed && (!pending || !pex) {
			vCover("refused-pex")
		}
	}
	if sessionOK && envelopeParsed && n >= 1 && !anyNonce {
		for _, s := range specs {
			if s.challenge == "n1" || s.challenge == "n2" {
				// a live nonce of the OTHER session
				vCover("refused-foreign-nonce")
			}
		}
	}
	if d > 60 && body.State != nil && state == "s1" && tenant == "s" {
		vCover("refused-expired")
	}
}

func H02s_twin() {
	w := hVPNewWorld()
	r, db := w.r, w.db
	hC02Clock = time.Unix(hVPT0, 0)
	_ = r.oauthClientStateStore().Put("s1", hVPSessionOf(0, "cl", "sc", hVPRedirect))
	_ = r.oauthNonceStore().Put("n1", "s1")
	var specs []hVPPres
	hVPEnvelopes["vp"] = hVPDrawEnvelope(w, "vp", 1, &specs)
	hVPSubmissions["sub"] = &pe.PresentationSubmission{Id: "sub", DefinitionId: "o"}
	hVPPEXVerdict["sub"] = true
	state, tok, sub := "s1", "vp", "sub"
	_, err := r.handleAuthorizeResponseSubmission(context.Background(), HandleAuthorizeResponseRequestObject{SubjectID: "s",
		Body: &HandleAuthorizeResponseFormdataRequestBody{State: &state, VpToken: &tok, PresentationSubmission: &sub}})
	if err == nil && db.putCount("oauth/code") == 1 && len(specs) == 1 && len(w.ver.calls) == 1 {
		vAssert(false, "H02s_twin.reach: reachable")
	}
}

// H02u: the multi-presentation loops of the response endpoint at quick cost: state, tenant, time, submission and
// PEX are those of a valid response for session "s1" (definition "o" only); the envelope has 0..u_vps presentations
// with arbitrary challenge / audience / subject / VerifyVP verdict each. A code is issued iff EVERY presentation
// passes every check.
func H02u() {
	w := hVPNewWorld()
	r, db := w.r, w.db
	hC02Clock = time.Unix(hVPT0, 0)
	vAssert(r.oauthClientStateStore().Put("s1", hVPSessionOf(0, "cl", "sc", hVPRedirect)) == nil, "H02u.setup: cannot store session")
	vAssert(r.oauthNonceStore().Put("n1", "s1") == nil, "H02u.setup: cannot store nonce")
	vAssert(r.oauthNonceStore().Put("n2", "s1") == nil, "H02u.setup: cannot store nonce") // a second flow's nonce of the same session
	var specs []hVPPres
	hVPEnvelopes["vp"] = hVPDrawEnvelope(w, "vp", vParam("u_vps", 2), &specs)
	hVPSubmissions["sub"] = &pe.PresentationSubmission{Id: "sub", DefinitionId: "o"}
	hVPPEXVerdict["sub"] = true
	state, tok, sub := "s1", "vp", "sub"
	_, err := r.handleAuthorizeResponseSubmission(context.Background(), HandleAuthorizeResponseRequestObject{SubjectID: "s",
		Body: &HandleAuthorizeResponseFormdataRequestBody{State: &state, VpToken: &tok, PresentationSubmission: &sub}})
	codes := db.putCount("oauth/code")
	n := len(specs)
	sameNonce, allOK := true, n >= 1
	for _, s := range specs {
		sameNonce = sameNonce && s.challenge == specs[0].challenge
		allOK = allOK && (s.challenge == "n1" || s.challenge == "n2") && s.domain == hVPServerURL && (s.subjectID == "-" || s.subjectID == "a") && s.verdict
	}
	allOK = allOK && sameNonce
	if err == nil {
		vCover("code-issued")
		vAssert(codes == 1, "H02u.one_code: success without exactly one code")
		vAssert(n >= 1, "H02u.has_presentations: code issued without a presentation")
		for _, s := range specs {
			vAssert(s.challenge == specs[0].challenge && (s.challenge == "n1" || s.challenge == "n2"), "H02u.nonce_checked: code issued although not every presentation carries one nonce of the session")
			vAssert(s.domain == hVPServerURL, "H02u.audience_checked: code issued for a presentation addressed to another audience")
			vAssert(s.subjectID == "-" || s.subjectID == "a", "H02u.signer_checked: code issued for a presentation not signed by the subject of its credentials")
			vAssert(s.verdict, "H02u.presentation_verified: code issued for a presentation that does not verify")
			vAssert(w.ver.verifiedFully(s.id), "H02u.verify_called_for_every_presentation: VerifyVP(p, true, true, nil) was not called for a presentation")
		}
		vAssert(db.live("oauth/nonce", specs[0].challenge) < 0, "H02u.nonce_burned: honoured nonce still redeemable")
		if n == 2 {
			vCover("code-issued-2-presentations")
		}
		return
	}
	vCover("refused")
	vAssert(codes == 0, "H02u.no_code_on_failure: an authorization code was stored although the response was refused")
	vAssert(!allOK, "H02u.valid_response_refused: a response passing every check was refused")
	for _, s := range specs {
		if s.challenge == "n1" || s.challenge == "n2" {
			vAssert(db.live("oauth/nonce", s.challenge) < 0, "H02u.presented_nonce_burned: a nonce presented in a refused response is still redeemable")
		}
	}
	if n == 2 && !sameNonce {
		vCover("refused-mixed-nonces")
	}
	if n == 2 && specs[0].verdict && !specs[1].verdict {
		vCover("refused-second-presentation")
	}
}

func H02u_twin() {
	w := hVPNewWorld()
	r, db := w.r, w.db
	hC02Clock = time.Unix(hVPT0, 0)
	_ = r.oauthClientStateStore().Put("s1", hVPSessionOf(0, "cl", "sc", hVPRedirect))
	_ = r.oauthNonceStore().Put("n1", "s1")
	var specs []hVPPres
	hVPEnvelopes["vp"] = hVPDrawEnvelope(w, "vp", 2, &specs)
	hVPSubmissions["sub"] = &pe.PresentationSubmission{Id: "sub", DefinitionId: "o"}
	hVPPEXVerdict["sub"] = true
	state, tok, sub := "s1", "vp", "sub"
	_, err := r.handleAuthorizeResponseSubmission(context.Background(), HandleAuthorizeResponseRequestObject{SubjectID: "s",
		Body: &HandleAuthorizeResponseFormdataRequestBody{State: &state, VpToken: &tok, PresentationSubmission: &sub}})
	if err == nil && db.putCount("oauth/code") == 1 && len(specs) == 2 && len(w.ver.calls) == 2 {
		vAssert(false, "H02u_twin.reach: reachable")
	}
}
