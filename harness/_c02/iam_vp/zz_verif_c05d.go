//go:build verif

package iam

import (
	"context"
	"net/url"
	"time"

	"github.com/eko/gocache/lib/v4/cache"
	"github.com/eko/gocache/lib/v4/store"
	"github.com/nuts-foundation/nuts-node/storage"
	"github.com/nuts-foundation/nuts-node/vcr/pe"
)

// hVPValidResponse registers a response that passes every check for session "s1"/nonce "n1" under the parameter
// texts vp_token=<name>, presentation_submission=<name>, fulfilling definition def.
func hVPValidResponse(w hVPWorld, name, def string) HandleAuthorizeResponseRequestObject {
	s := hVPPres{id: "urn:" + name + ":0", challenge: "n1", domain: hVPServerURL, subjectID: "a", verdict: true}
	w.ver.verdict[s.id] = true
	hVPEnvelopes[name] = &pe.Envelope{Presentations: nil}
	hVPEnvelopes[name].Presentations = append(hVPEnvelopes[name].Presentations, hVPBuild(s))
	hVPSubmissions[name] = &pe.PresentationSubmission{Id: name, DefinitionId: def}
	hVPPEXVerdict[name] = true
	state, tok, sub := "s1", name, name
	return HandleAuthorizeResponseRequestObject{SubjectID: "s", Body: &HandleAuthorizeResponseFormdataRequestBody{State: &state, VpToken: &tok, PresentationSubmission: &sub}}
}

// H05d: two authorization responses in sequence for the same state "s1" and nonce "n1". The first is arbitrary
// (one presentation with arbitrary challenge/audience/subject/verdict, submission for "o" with arbitrary PEX verdict);
// the second, e seconds later, is the best replay an attacker can make: it passes every check and carries nonce "n1"
// again. Session: definition "o" only (cfg 0) or "o" and "u" (cfg 1; then the replay names "u").
func H05d() {
	w := hVPNewWorld()
	r, db := w.r, w.db
	hC02Clock = time.Unix(hVPT0, 0)
	cfg := vChoice(2)
	vAssert(r.oauthClientStateStore().Put("s1", hVPSessionOf(cfg, "cl", "sc", hVPRedirect)) == nil, "H05d.setup: cannot store session")
	vAssert(r.oauthNonceStore().Put("n1", "s1") == nil, "H05d.setup: cannot store nonce")

	var specs []hVPPres
	hVPEnvelopes["vp1"] = hVPDrawEnvelope(w, "vp1", 1, &specs)
	hVPSubmissions["sub1"] = &pe.PresentationSubmission{Id: "sub1", DefinitionId: "o"}
	hVPPEXVerdict["sub1"] = vBool()
	state, tok, sub := "s1", "vp1", "sub1"
	first := HandleAuthorizeResponseRequestObject{SubjectID: "s", Body: &HandleAuthorizeResponseFormdataRequestBody{State: &state, VpToken: &tok, PresentationSubmission: &sub}}
	replayDef := "o"
	if cfg == 1 {
		replayDef = "u"
	}
	second := hVPValidResponse(w, "r2", replayDef)

	_, err1 := r.handleAuthorizeResponseSubmission(context.Background(), first)
	codes1 := db.putCount("oauth/code")
	vTag("elapsed")
	e := vRange(0, 90)
	hC02Clock = time.Unix(hVPT0+int64(e), 0)
	_, err2 := r.handleAuthorizeResponseSubmission(context.Background(), second)
	codes := db.putCount("oauth/code")

	presented := len(specs) == 1 && specs[0].challenge == "n1"
	vAssert(codes <= 1, "H05d.at_most_one_code: two responses carrying one nonce yielded two authorization codes")
	if presented {
		vCover("nonce-presented-twice")
		vClass("OpenID4VP nonce replayed sequentially")
		vAssert(err2 != nil && codes == codes1, "H05d.nonce_at_most_once: a response replaying an already presented nonce was accepted")
		if err1 != nil {
			vCover("first-failed-after-nonce")
		} else if codes1 == 1 {
			vCover("first-issued-code")
		} else {
			vCover("first-started-next-flow")
		}
	} else {
		vCover("nonce-not-presented-before")
		vAssert(err1 != nil && codes1 == 0, "H05d.first_refused: a response without the session's nonce was accepted")
		if err2 == nil {
			vCover("fresh-nonce-honoured")
			vAssert(e <= 60, "H05d.expired_nonce_honoured: nonce honoured after its validity")
		}
	}
}

func H05d_twin() {
	w := hVPNewWorld()
	r, db := w.r, w.db
	hC02Clock = time.Unix(hVPT0, 0)
	_ = r.oauthClientStateStore().Put("s1", hVPSessionOf(0, "cl", "sc", hVPRedirect))
	_ = r.oauthNonceStore().Put("n1", "s1")
	a, b := hVPValidResponse(w, "r1", "o"), hVPValidResponse(w, "r2", "o")
	_, err1 := r.handleAuthorizeResponseSubmission(context.Background(), a)
	_, err2 := r.handleAuthorizeResponseSubmission(context.Background(), b)
	if err1 == nil && err2 != nil && db.putCount("oauth/code") == 1 {
		vAssert(false, "H05d_twin.reach: reachable")
	}
}

// ---------------------------------------------------------------------------------------------
// Concurrency: the real in-memory session database (real SessionStoreImpl: key prefixes, JSON, GetAndDelete) over a
// cache back end (store.StoreInterface) whose Get/Set/Delete are atomic steps and scheduling points (what a cache
// back end guarantees per operation, and nothing more). Delete of a missing key succeeds. (Copy of H05c's.)

type hC05Back struct {
	store.StoreInterface
	entries []hC05BackEntry
}

type hC05BackEntry struct {
	key string
	val any
}

func (s *hC05Back) Get(ctx context.Context, key any) (any, error) {
	vYield()
	vAtomicBegin()
	defer vAtomicEnd()
	for _, e := range s.entries {
		if e.key == key.(string) {
			return e.val, nil
		}
	}
	return nil, store.NotFoundWithCause(nil)
}

func (s *hC05Back) Set(ctx context.Context, key any, value any, options ...store.Option) error {
	vYield()
	vAtomicBegin()
	defer vAtomicEnd()
	for i := range s.entries {
		if s.entries[i].key == key.(string) {
			s.entries[i].val = value
			return nil
		}
	}
	s.entries = append(s.entries, hC05BackEntry{key.(string), value})
	return nil
}

func (s *hC05Back) Delete(ctx context.Context, key any) error {
	vYield()
	vAtomicBegin()
	defer vAtomicEnd()
	for i := range s.entries {
		if s.entries[i].key == key.(string) {
			s.entries = append(s.entries[:i:i], s.entries[i+1:]...)
			return nil
		}
	}
	return nil
}

func (s *hC05Back) GetType() string { return "harness" }

// count returns the number of entries whose key contains sub.
func (s *hC05Back) count(sub string) int {
	n := 0
	for _, e := range s.entries {
		if containsStr(e.key, sub) {
			n++
		}
	}
	return n
}

func hVPConcurrentWorld() (hVPWorld, *hC05Back) {
	hC02Clock = time.Unix(hVPT0, 0)
	publicURL, _ := url.Parse("https://n")
	back := &hC05Back{}
	db := &storage.InMemorySessionDatabase{}
	vSetField(db, "underlying", cache.New[[]byte](back))
	ver := &hC02Verifier{verdict: map[string]bool{}, db: newHC02DB()}
	hVPResetParsers()
	return hVPWorld{r: Wrapper{storageEngine: hC02Engine{db: db}, auth: hC02Auth{publicURL: publicURL}, vcr: hC02VCR{v: ver},
		subjectManager: hVPSubjects{}, jar: hVPJar{}}, ver: ver}, back
}

// H05e: n concurrent, otherwise valid authorization responses carrying the same state and nonce, through the real
// handleAuthorizeResponseSubmission over the real session store implementation: exactly one authorization code
// under every schedule of the store operations (within the preemption bound); a later replay is refused.
func H05e() {
	w, back := hVPConcurrentWorld()
	r := w.r
	vAssert(r.oauthClientStateStore().Put("s1", hVPSessionOf(0, "cl", "sc", hVPRedirect)) == nil, "H05e.setup: cannot store session")
	vAssert(r.oauthNonceStore().Put("n1", "s1") == nil, "H05e.setup: cannot store nonce")
	n := vParam("e_threads", 2)
	reqs := make([]HandleAuthorizeResponseRequestObject, n+1)
	for i := range reqs {
		reqs[i] = hVPValidResponse(w, "r"+string(rune('0'+i)), "o")
	}
	ok := make([]bool, n)
	for i := 0; i < n; i++ {
		i := i
		vGo(func() {
			resp, err := r.handleAuthorizeResponseSubmission(context.Background(), reqs[i])
			if ok200, is200 := resp.(HandleAuthorizeResponse200JSONResponse); err == nil && is200 && containsStr(ok200.RedirectURI, "code=") {
				ok[i] = true
			}
		})
	}
	vWait()
	successes := 0
	for _, b := range ok {
		if b {
			successes++
		}
	}
	vClass("OpenID4VP nonce presented concurrently")
	vAssert(successes <= 1 && back.count("code") <= 1, "H05e.nonce_at_most_once: two concurrent responses carrying one nonce both yielded an authorization code")
	vAssert(successes >= 1, "H05e.nonce_at_least_once: a valid response was refused for every request")
	_, err := r.handleAuthorizeResponseSubmission(context.Background(), reqs[n])
	vAssert(err != nil && back.count("code") <= 1, "H05e.sequential_replay: a burned nonce was honoured again")
	vCover("done")
}

func H05e_twin() {
	w, back := hVPConcurrentWorld()
	r := w.r
	_ = r.oauthClientStateStore().Put("s1", hVPSessionOf(0, "cl", "sc", hVPRedirect))
	_ = r.oauthNonceStore().Put("n1", "s1")
	req := hVPValidResponse(w, "r0", "o")
	n := 0
	vGo(func() {
		if _, err := r.handleAuthorizeResponseSubmission(context.Background(), req); err == nil {
			n++
		}
	})
	vWait()
	if n == 1 && back.count("code") == 1 {
		vAssert(false, "H05e_twin.reach: reachable")
	}
}

// ---------------------------------------------------------------------------------------------
// DPoP proof id.

func hVPValidate(r Wrapper, proofText, jkt, token string) bool {
	resp, err := r.ValidateDPoPProof(context.Background(), ValidateDPoPProofRequestObject{Body: &ValidateDPoPProofJSONRequestBody{
		DpopProof: proofText, Thumbprint: jkt, Method: "GET", Url: "https://r/x", Token: token}})
	v200, is200 := resp.(ValidateDPoPProof200JSONResponse)
	return err == nil && is200 && v200.Valid
}

// H05f: history issue token (t0) / resource request with proof pa (t0+d1) / resource request with proof pb
// (t0+d1+d2) / introspection. Both proofs are valid for the request and the token; their ids are arbitrary
// one-byte strings (equal or not). A proof id is honoured at most once as long as it can matter: if both requests
// are accepted with the same id, the access token they are bound to (ath) is no longer active.
func H05f() {
	w := hVPNewWorld()
	r, db := w.r, w.db
	hC02Clock = time.Unix(hVPT0, 0)
	hVPCodeSession(w, "code", "c", "x")
	thumb := []byte{1, 2, 3}
	hVPProofs = map[string]hVPProof{"p0": {jti: "j0", htm: "POST", htu: "https://n/oauth2/s/token", thumb: thumb}}
	tokResp, issued := hVPTokenRequest(w, "code", "c", "p0")
	vAssert(issued, "H05f.setup: token not issued")
	token := tokResp.AccessToken
	vTag("pa.jti")
	ja := vString(1)
	vTag("pb.jti")
	jb := vString(1)
	hVPProofs["pa"] = hVPProof{jti: ja, htm: "GET", htu: "https://r/x", ath: hVPAth(token), thumb: thumb}
	hVPProofs["pb"] = hVPProof{jti: jb, htm: "GET", htu: "https://r/x", ath: hVPAth(token), thumb: thumb}
	jkt := hC02B64URL(thumb)

	vTag("d1")
	d1 := vRange(0, 1000)
	vTag("d2")
	d2 := vRange(0, 1000)
	hC02Clock = time.Unix(hVPT0+int64(d1), 0)
	va := hVPValidate(r, "pa", jkt, token)
	hC02Clock = time.Unix(hVPT0+int64(d1)+int64(d2), 0)
	vb := hVPValidate(r, "pb", jkt, token)
	iresp, err := r.IntrospectAccessToken(hVPIntrospectCtx(), IntrospectAccessTokenRequestObject{Body: &IntrospectAccessTokenFormdataRequestBody{Token: token}})
	intro, is200 := iresp.(IntrospectAccessToken200JSONResponse)
	vAssert(err == nil && is200, "H05f.introspection: introspection failed")

	vAssert(va, "H05f.fresh_proof_refused: a valid proof with an id never seen was refused")
	vAssert(db.live("nonceonce", jb) >= 0 || !vb, "H05f.jti_remembered: the id of an accepted proof was not remembered")
	if ja == jb {
		vCover("same-id")
		vClass("DPoP proof id replayed sequentially")
		if vb {
			vCover("replay-after-window")
			vAssert(!intro.Active, "H05f.jti_at_most_once: a DPoP proof id was honoured twice while the access token it is bound to is active")
			vAssert(d2 > 900, "H05f.jti_kept_for_token_lifetime: a DPoP proof id was honoured twice within the lifetime of an access token")
		} else {
			vCover("replay-refused")
		}
	} else {
		vCover("different-ids")
		vAssert(vb, "H05f.other_id_refused: a valid proof with another id was refused")
	}
}

func H05f_twin() {
	w := hVPNewWorld()
	r := w.r
	hC02Clock = time.Unix(hVPT0, 0)
	thumb := []byte{1, 2, 3}
	j := vString(1)
	hVPProofs = map[string]hVPProof{"pa": {jti: j, htm: "GET", htu: "https://r/x", ath: hVPAth("t"), thumb: thumb}}
	a := hVPValidate(r, "pa", hC02B64URL(thumb), "t")
	b := hVPValidate(r, "pa", hC02B64URL(thumb), "t")
	if a && !b && j == "k" {
		vAssert(false, "H05f_twin.reach: reachable")
	}
}

// H05g: n concurrent resource-server checks of one and the same valid DPoP proof through the real ValidateDPoPProof
// over the real session store implementation: exactly one is answered valid under every schedule of the store
// operations (within the preemption bound); a later replay is refused.
func H05g() {
	w, _ := hVPConcurrentWorld()
	r := w.r
	thumb := []byte{1, 2, 3}
	hVPProofs = map[string]hVPProof{"pa": {jti: "ja", htm: "GET", htu: "https://r/x", ath: hVPAth("t"), thumb: thumb}}
	jkt := hC02B64URL(thumb)
	n := vParam("g_threads", 2)
	ok := make([]bool, n)
	for i := 0; i < n; i++ {
		i := i
		vGo(func() {
			ok[i] = hVPValidate(r, "pa", jkt, "t")
		})
	}
	vWait()
	successes := 0
	for _, b := range ok {
		if b {
			successes++
		}
	}
	vClass("DPoP proof id presented concurrently")
	vAssert(successes <= 1, "H05g.jti_at_most_once: two concurrent requests presenting one DPoP proof id were both answered valid")
	vAssert(successes >= 1, "H05g.jti_at_least_once: a valid proof was refused for every request")
	vAssert(!hVPValidate(r, "pa", jkt, "t"), "H05g.sequential_replay: a used DPoP proof id was honoured again")
	vCover("done")
}

func H05g_twin() {
	w, _ := hVPConcurrentWorld()
	r := w.r
	thumb := []byte{1, 2, 3}
	hVPProofs = map[string]hVPProof{"pa": {jti: "ja", htm: "GET", htu: "https://r/x", ath: hVPAth("t"), thumb: thumb}}
	n := 0
	vGo(func() {
		if hVPValidate(r, "pa", hC02B64URL(thumb), "t") {
			n++
		}
	})
	vWait()
	if n == 1 {
		vAssert(false, "H05g_twin.reach: reachable")
	}
}

// H05h: two token requests with two different, valid authorization codes, each carrying a DPoP proof whose id is
// "j" + an arbitrary byte: if both are honoured the proof ids differ (a DPoP proof id is honoured at most once, also
// at the token endpoint - F-37: the token endpoints used to parse the proof without registering its jti), the first
// is always honoured, and a second request with a fresh proof id is honoured too.
func H05h() {
	w := hVPNewWorld()
	hC02Clock = time.Unix(hVPT0, 0)
	hVPCodeSession(w, "code1", "c", "x")
	hVPCodeSession(w, "code2", "c", "x")
	j1, j2 := "j"+vString(1), "j"+vString(1)
	hVPProofs = map[string]hVPProof{
		"p0": {jti: j1, htm: "POST", htu: "https://n/oauth2/s/token", thumb: []byte{1, 2, 3}},
		"p1": {jti: j2, htm: "POST", htu: "https://n/oauth2/s/token", thumb: []byte{1, 2, 3}},
	}
	_, first := hVPTokenRequest(w, "code1", "c", "p0")
	_, second := hVPTokenRequest(w, "code2", "c", "p1")
	vCover("done")
	if j1 == j2 {
		vCover("same-proof-id")
		vClass("DPoP proof replayed at the token endpoint")
	} else {
		vCover("fresh-proof-id")
		vAssert(second, "H05h.fresh_proof_honoured: a token request with a fresh DPoP proof was refused")
	}
	vAssert(first, "H05h.first_honoured: the first valid token request was refused")
	vAssert(!(first && second) || j1 != j2, "H05h.jti_at_most_once_token_endpoint: one DPoP proof was honoured by two token requests")
}

func H05h_twin() {
	w := hVPNewWorld()
	hC02Clock = time.Unix(hVPT0, 0)
	hVPCodeSession(w, "code1", "c", "x")
	hVPProofs = map[string]hVPProof{"p0": {jti: "j0", htm: "POST", htu: "https://n/oauth2/s/token", thumb: []byte{1, 2, 3}}}
	if _, ok := hVPTokenRequest(w, "code1", "c", "p0"); ok {
		vAssert(false, "H05h_twin.reach: reachable")
	}
}
