package didnuts

// Demonstration of finding F-15 (property C09): the verificationMethod validator accepts a key whose id is NOT
// its thumbprint when publicKeyJwk carries a "kid" member equal to the id fragment (jwk.AssignKeyID is a no-op
// for a key that already has a kid). Copy to /repo/vdr/didnuts/ and run: go test -vet=off -count=1 -run TestF15 ./vdr/didnuts/

import (
	"crypto/ecdsa"
	"crypto/elliptic"
	"crypto/rand"
	"testing"

	ssi "github.com/nuts-foundation/go-did"
	"github.com/nuts-foundation/go-did/did"
	"github.com/stretchr/testify/require"
)

func TestF15_KeyIDMustEqualThumbprint(t *testing.T) {
	key, _ := ecdsa.GenerateKey(elliptic.P256(), rand.Reader)
	id := did.MustParseDID("did:nuts:123")
	vmID := did.DIDURL{DID: id, Fragment: "not-the-thumbprint"}
	vm, err := did.NewVerificationMethod(vmID, ssi.JsonWebKey2020, id, key.Public())
	require.NoError(t, err)
	// the attacker adds a kid member to the JWK that equals the fragment
	vm.PublicKeyJwk["kid"] = "not-the-thumbprint"
	err = verificationMethodValidator{}.verifyThumbprint(vm)
	require.Error(t, err, "verification method whose id is not the key thumbprint was accepted")
}
