package http

// Demonstration of finding F-01 (property C04) against the real HTTP engine over raw TCP: an absolute-form
// request target reaches an /internal handler without a bearer token on the pinned tree (before fix 445ba22).
// Copy to /repo/http/ and run: go test -vet=off -count=1 -run TestF01 ./http/
// It relies on helpers of http/engine_test.go (generateEd25519TestKey, validJWT, createTestConfig, assertServerStarted).

import (
	"bufio"
	"fmt"
	"net"
	"net/http"
	"os"
	"sync/atomic"
	"testing"
	"time"

	"github.com/labstack/echo/v4"
	"github.com/nuts-foundation/nuts-node/core"
	"github.com/stretchr/testify/assert"
	"github.com/stretchr/testify/require"
)

// rawRequest sends a request with the exact given request target (no client side normalization) and returns the status code.
func f01RawRequest(t *testing.T, address string, target string, bearer string) int {
	t.Helper()
	conn, err := net.DialTimeout("tcp", address, 2*time.Second)
	require.NoError(t, err)
	defer conn.Close()
	_ = conn.SetDeadline(time.Now().Add(5 * time.Second))
	req := fmt.Sprintf("GET %s HTTP/1.1\r\nHost: %s\r\nConnection: close\r\n", target, address)
	if bearer != "" {
		req += "Authorization: Bearer " + bearer + "\r\n"
	}
	req += "\r\n"
	_, err = conn.Write([]byte(req))
	require.NoError(t, err)
	resp, err := http.ReadResponse(bufio.NewReader(conn), nil)
	require.NoError(t, err)
	defer resp.Body.Close()
	return resp.StatusCode
}

func TestF01_AbsoluteFormTargetDoesNotBypassTokenAuth(t *testing.T) {
	_, serializer, authorizedKeys := generateEd25519TestKey(t)
	serializedToken, err := serializer.Serialize(validJWT(t, "foo"))
	require.NoError(t, err)

	authorizedKeysFile, err := os.CreateTemp(t.TempDir(), "authorized_keys-")
	require.NoError(t, err)
	_, _ = authorizedKeysFile.Write(authorizedKeys)
	_ = authorizedKeysFile.Close()

	engine := New(func() {}, nil)
	engine.config = createTestConfig()
	engine.config.Internal.Auth = AuthConfig{
		Type:               BearerTokenAuthV2,
		Audience:           "foo",
		AuthorizedKeysPath: authorizedKeysFile.Name(),
	}
	require.NoError(t, engine.Configure(*core.NewServerConfig()))

	var reached atomic.Int32
	engine.Router().GET("/internal/landing", func(c echo.Context) error {
		reached.Add(1)
		return c.String(http.StatusOK, "secret")
	})
	require.NoError(t, engine.Start())
	defer engine.Shutdown()
	assertServerStarted(t, engine.config.Internal.Address)
	internal := engine.config.Internal.Address

	// Sanity: canonical path with a valid token is served, without token it is rejected.
	assert.Equal(t, http.StatusOK, f01RawRequest(t, internal, "/internal/landing", string(serializedToken)))
	assert.Equal(t, int32(1), reached.Load())
	reached.Store(0)
	assert.Equal(t, http.StatusUnauthorized, f01RawRequest(t, internal, "/internal/landing", ""))
	assert.Equal(t, int32(0), reached.Load())

	// The property: whatever the form of the request target, no unauthenticated request reaches the /internal handler.
	for _, target := range []string{
		"http://x/internal/landing",
		"B:/internal/landing",
		"a://h/internal/landing?x=1",
	} {
		t.Run(target, func(t *testing.T) {
			reached.Store(0)
			status := f01RawRequest(t, internal, target, "")
			assert.Equal(t, int32(0), reached.Load(), "handler under /internal reached without bearer token (HTTP %d)", status)
			assert.NotEqual(t, http.StatusOK, status)
		})
	}
}
