package storage

// Demonstration of finding F-04 (property C05) against the real SessionStoreImpl on the real in-memory
// go-cache back end: a store wrapper parks the first redemption between its Get and its Delete until the
// second redemption has done its Get. Before the fix both redemptions succeed.
// Run: cp to /repo/storage/ ; go test -vet=off -count=1 -run TestF04 ./storage/

import (
	"context"
	"sync"
	"sync/atomic"
	"testing"
	"time"

	"github.com/eko/gocache/lib/v4/cache"
	"github.com/eko/gocache/lib/v4/store"
	"github.com/eko/gocache/store/go_cache/v4"
	gocacheclient "github.com/patrickmn/go-cache"
)

type gateStore struct {
	store.StoreInterface
	gets      atomic.Int32
	secondGet chan struct{}
	once      sync.Once
}

func (g *gateStore) Get(ctx context.Context, key any) (any, error) {
	v, err := g.StoreInterface.Get(ctx, key)
	if g.gets.Add(1) == 2 {
		close(g.secondGet)
	}
	return v, err
}

func (g *gateStore) Delete(ctx context.Context, key any) error {
	g.once.Do(func() { // the first Delete waits for the other request's Get
		select {
		case <-g.secondGet:
		case <-time.After(300 * time.Millisecond):
		}
	})
	return g.StoreInterface.Delete(ctx, key)
}

func TestF04_GetAndDeleteHonouredTwice(t *testing.T) {
	gs := &gateStore{StoreInterface: go_cache.NewGoCache(gocacheclient.New(time.Minute, time.Minute)), secondGet: make(chan struct{})}
	db := &InMemorySessionDatabase{underlying: cache.New[[]byte](gs)}
	st := db.GetStore(time.Minute, "oauth", "code")
	if err := st.Put("code", "session"); err != nil {
		t.Fatal(err)
	}
	var ok atomic.Int32
	var wg sync.WaitGroup
	for i := 0; i < 2; i++ {
		wg.Add(1)
		go func() {
			defer wg.Done()
			var target string
			if err := st.GetAndDelete("code", &target); err == nil {
				ok.Add(1)
			}
		}()
	}
	wg.Wait()
	if ok.Load() != 1 {
		t.Fatalf("one-time value redeemed %d times", ok.Load())
	}
}
