#!/usr/bin/env python3
"""mkmutprompts.py <wtroot> <k1> <k2> <id>... : writes the brief for independent authors of seeded changes (they get the
property text and a scratch worktree only - nothing from /verif) to <wtroot>/prompts/<id>.txt"""
import json, sys
root, k1, k2, ids = sys.argv[1], sys.argv[2], sys.argv[3], sys.argv[4:]
props = {json.loads(l)['id']: json.loads(l) for l in open('/verif/properties.jsonl')}
T = '''You are helping evaluate a verification effort by playing the role of a developer who introduces a subtle regression.

You work ONLY inside your own scratch git worktree of the Go project nuts-foundation/nuts-node at: {wt}
(It is a detached worktree of the current commit. Do NOT touch /repo or /verif, do not read anything under /verif, and do not commit anything.)

Environment (sealed sandbox, no network). In EVERY shell call first run:
  export GOFLAGS=-mod=mod GOPROXY=off GOSUMDB=off GOTOOLCHAIN=local
Go 1.23.5 is the default `go`. Running a single package's tests: `cd {wt} && go test -p 2 -vet=off -count=1 ./path/to/pkg/...` (first build is slow, up to a few minutes; use generous timeouts). Keep CPU use low (other jobs share the machine): always `-p 2` for go test/build, only the packages you touch and their direct users.
Some tests fail on the pristine tree in this sandbox for environmental reasons (expired test certificates, no DNS): packages crypto/storage/vault, vdr/didweb, auth/client/iam, didman/api/v1 and the root of network. Ignore those failures; compare against the pristine tree when in doubt.

Here is a semantic property that the project is supposed to satisfy:

  id: {id}
  title: {title}
  statement: {statement}
  quantified over: {qtext}
  code anchors (files where the mechanism lives): {files}

YOUR TASK: produce TWO different, independent source changes ("mutants") to the project's non-test Go code, each of which BREAKS this property while:
  (a) still compiling (`go build ./...`),
  (b) still passing the project's EXISTING tests unedited (at minimum run the tests of every package you touched and of the packages that most directly use the changed code; say exactly which you ran),
  (c) looking like a plausible refactoring/optimisation/bug a real developer could commit - not sabotage such as `if input == "magic"`.
Each mutant must need something SPECIFIC to manifest - e.g. a particular interleaving, a crash or fault at a particular point, a multi-step sequence of operations, an unusual/boundary input, or two cooperating sites that each look fine alone - rather than something ordinary use would expose at once. The two mutants should break different aspects/mechanisms of the property (ideally in different functions or files among the anchors). Be inventive: prefer mechanisms that are less obvious than a prefix-instead-of-equality comparison or a dropped check (state carried between steps, ordering of checks, boundary arithmetic, a value cached or reused across calls, two cooperating sites). Prefer changes in the decision logic owned by this project over changes inside third-party libraries.

For each mutant k in {{{k1},{k2}}} deliver, under {wt}/_mut/m<k>/ :
  - patch.diff : output of `git diff` for the source change only (must apply with `git apply` on the pristine worktree commit; do not include the demonstration in it)
  - a demonstration: ONE Go test file named zz_mut_{idl}_m<k>_demo_test.go (say in README.md where in the tree it must be copied to, and the `go test -run` command), that FAILS with the change applied and PASSES on the pristine tree. It should exercise the real code (in-package tests may use unexported identifiers). Its test function names must start with TestMut{id}M<k>.
  - README.md : which part of the property it breaks, what exactly is needed for it to manifest, the commands you ran (existing tests + demo with/without the patch) and their outcomes.
When finished, leave the worktree's tracked source files PRISTINE (git checkout -- . ; remove copied demo test files from the source tree; only the _mut/ directory stays). Verify each patch by: git apply, build, run existing package tests (pass), run demo (fails); git apply -R; run demo (passes).

Finish within about 50 minutes; if the second mutant is not done by then, deliver one.
Report back briefly: for each mutant one paragraph (what, where, why tests miss it), the directory the demo goes into, and the exact paths.
'''
for id in ids:
    p = props[id]
    s = T.format(wt=root + '/' + id, id=id, idl=id.lower(), k1=k1, k2=k2, title=p['title'], statement=p['statement'],
                 qtext=p['quantifier']['text'], files=', '.join(p['anchors']['files']))
    open('%s/prompts/%s.txt' % (root, id), 'w').write(s)
