#!/usr/bin/env python3
"""eval_seeded.py [id ...] : runs the quick check of each seeded change's property (plus extra properties listed in
meta.json 'also_check') against a scratch copy of /repo with the patch applied; records the verdict in meta.json
('detected_by') and prints a table. Never touches /repo or the committed evidence."""
import json, os, subprocess, sys, shutil, re, time
V = os.path.dirname(os.path.dirname(os.path.abspath(__file__)))
ids = sys.argv[1:] or sorted(os.listdir(os.path.join(V, "seeded")))
rows = []
for sid in ids:
    d = os.path.join(V, "seeded", sid)
    mp = os.path.join(d, "meta.json")
    if not os.path.exists(mp):
        continue
    meta = json.load(open(mp))
    scratch = "/tmp/seedeval_%s_%d" % (sid, os.getpid())
    os.makedirs(scratch)
    subprocess.check_call(["rsync", "-a", "--exclude", ".git", "/repo/", scratch + "/repo/"])
    # patch_head.diff: the same change rebased on the repaired tree (when a fix: commit touched the same lines)
    pf = os.path.join(d, "patch_head.diff")
    if not os.path.exists(pf):
        pf = os.path.join(d, "patch.diff")
    r = subprocess.run(["patch", "-p1", "-s", "-i", pf], cwd=scratch + "/repo", capture_output=True, text=True)
    if r.returncode != 0:
        rows.append((sid, "patch does not apply on /repo HEAD", ""))
        meta["detected_by"] = "patch does not apply on current /repo HEAD"
        json.dump(meta, open(mp, "w"), indent=1)
        shutil.rmtree(scratch)
        continue
    props = [meta["property"]] + meta.get("also_check", [])
    found = []
    notes = []
    for prop in props:
        env = dict(os.environ, VERIF_REPO=scratch + "/repo", VERIF_OUT=scratch + "/out")
        t0 = time.time()
        p = subprocess.run([os.path.join(V, "check"), prop, "quick"], env=env, capture_output=True, text=True)
        sites = re.findall(r"^  site=(\S+)", p.stdout, re.M)
        if p.returncode == 1:
            found.append("%s: %s" % (prop, ", ".join(sorted(set(sites)))[:300]))
        elif p.returncode == 2:
            inc = [l for l in p.stdout.splitlines() if l.startswith("INCONCLUSIVE")][:2]
            notes.append("%s inconclusive: %s" % (prop, " | ".join(inc)[:300]))
        else:
            notes.append("%s: not detected (%.0fs)" % (prop, time.time() - t0))
    meta["detected_by"] = found or "NOT DETECTED"
    meta["eval_notes"] = notes
    json.dump(meta, open(mp, "w"), indent=1)
    rows.append((sid, "; ".join(found) or "NOT DETECTED", "; ".join(notes)))
    shutil.rmtree(scratch)
for r in rows:
    print("%-8s | %s | %s" % r)
