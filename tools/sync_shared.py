#!/usr/bin/env python3
"""copies harness/_shared/*.tmpl into the harness directories listed in harness/_shared/uses.json"""
import json, os, re
V = os.path.dirname(os.path.dirname(os.path.abspath(__file__)))
uses = json.load(open(os.path.join(V, "harness/_shared/uses.json")))
for tmpl, dirs in uses.items():
    src = open(os.path.join(V, "harness/_shared", tmpl)).read()
    for d in dirs:
        hd = os.path.join(V, "harness", d)
        name = None
        for f in sorted(os.listdir(hd)):
            if f.endswith(".go") and not f.startswith("zz_verif_shared_"):
                m = re.search(r"^package\s+(\w+)", open(os.path.join(hd, f)).read(), re.M)
                if m:
                    name = m.group(1); break
        out = os.path.join(hd, "zz_verif_shared_" + tmpl.replace(".tmpl", ""))
        open(out, "w").write(src.replace("PKGNAME", name))
        print("wrote", out)
