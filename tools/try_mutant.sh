#!/bin/sh
# usage: tools/try_mutant.sh <patch.diff> <symgo args...>   (runs the engine against a scratch copy with the patch applied)
set -e
P=$1; shift
S=/tmp/scratch/mut$$
mkdir -p $S
rsync -a --exclude .git /repo/ $S/repo/
(cd $S/repo && patch -p1 -s < $P)
${SYMGO:-/verif/bin/symgo} -repo $S/repo "$@" || true
rm -rf $S
