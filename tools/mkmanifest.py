#!/usr/bin/env python3
"""regenerates MANIFEST.json from harness/registry/*.json and tools/na.json"""
import json, os
V = os.path.dirname(os.path.dirname(os.path.abspath(__file__)))
import importlib.machinery, importlib.util
_l = importlib.machinery.SourceFileLoader("vcheck", os.path.join(V, "check"))
_spec = importlib.util.spec_from_loader("vcheck", _l)
_m = importlib.util.module_from_spec(_spec)
_l.exec_module(_m)
reg = _m.load_registry()
ids = [json.loads(l)["id"] for l in open(os.path.join(V, "properties.jsonl"))]
na = json.load(open(os.path.join(V, "tools", "na.json")))
enabled = set(json.load(open(os.path.join(V, "tools", "enabled.json")))["properties"])
checks = []
for i in ids:
    if i not in reg or i not in enabled:
        continue
    s = reg[i]
    hs = [h["entry"] for g in s["groups"] for h in g["harnesses"]]
    checks.append({
        "property_id": i,
        "quick_cmd": "./check %s quick" % i,
        "thorough_cmd": "./check %s thorough" % i,
        "evidence_file": "/verif/evidence/%s.json" % i,
        "replay_cmd_template": "./check replay {path}",
        "engine": "symgo",
        "level_claimed": {"category": "other",
                          "text": s.get("level_text", "Bounded symbolic execution of the real Go code (SSA) with an SMT solver deciding every assertion and implicit runtime check for all symbolic inputs within the stated bounds; neither an unbounded proof nor explicit-state model checking. ") + " Harnesses: " + ", ".join(hs) + ". " + s.get("explanation", ""),
                          "design_ref": "DESIGN.md section 6 (" + i + ")"},
        "level_note": "Bounds: " + json.dumps(s.get("bounds", {})) + ". Assumptions/stubs: " + "; ".join(s.get("assumptions", []) + s.get("stubs", [])) + ". Outside the claim: " + "; ".join(s.get("out_of_scope", [])),
        "technique": "solver-based bounded symbolic execution of Go SSA (own engine symgo + z3; z3 5.1 cross-check in thorough tier), counterexamples replayed on the native build",
    })
m = {
    "version": 1,
    "setup_cmd": "./setup.sh",
    "hooks": {"guard": "verif",
              "enable": "no source hooks in /repo: harnesses are //go:build verif overlay files injected with go/packages Overlay (engine) and go test -overlay (native replay)",
              "baseline_off_cmd": "for m in . ./vcr/pe/schema/gen; do (cd /repo/$m && go test -mod=mod -json -vet=off -count=1 -timeout 25m ./...); done",
              "source_commits": [], "add_only": True},
    "engines": [{"name": "symgo", "path": "/verif/engine", "serves_properties": [c["property_id"] for c in checks],
                 "kind_free_text": "bounded symbolic execution of Go SSA (golang.org/x/tools/go/ssa v0.29.0) with SMT back end (z3 -in, push/pop), forking on symbolic branches, decision-prefix DFS over 16 workers; written for this task"}],
    "checks": checks,
    "notes": "see DESIGN.md; known findings in known_findings.json; seeded mutants in seeded/",
    "not_applicable": [{"property_id": i, "reason": na.get(i, "check not built yet; see DESIGN.md section 6")} for i in ids if i not in reg or i not in enabled],
}
json.dump(m, open(os.path.join(V, "MANIFEST.json"), "w"), indent=1)
print("checks:", [c["property_id"] for c in checks])
