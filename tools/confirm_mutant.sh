#!/bin/bash
# usage: [WTROOT=/tmp/wt2 KOFF=2] confirm_mutant.sh <prop> <k> <demo dest dir> <test regex>   (stored as m<k+KOFF>)
# confirms in the mutant's own scratch worktree: patch applies, builds, existing tests of touched packages pass,
# demo fails with the patch and passes without; then stores it under /verif/seeded/<prop>-m<k>/
export GOFLAGS=-mod=mod GOPROXY=off GOSUMDB=off GOTOOLCHAIN=local
P=$1; K=$2; DEST=$3; RX=$4
WT=${WTROOT:-/tmp/wt}/$P; M=$WT/_mut/m$K; SK=$((K+${KOFF:-0}))
cd $WT || exit 2
git checkout -q -- . ; rm -f $DEST/*_demo_test.go
DEMO=$(ls $M/*demo_test.go $M/zz_mut_*_test.go $M/zz_c19_m1_iblt*_test.go $M/zz_c19_m2*_test.go $M/*_test.go 2>/dev/null | head -1); ALLT=$(ls $M/*_test.go | grep -v transactionset)
res() { echo "$P-m$SK: $*"; }
git apply --check $M/patch.diff || { res "patch does not apply"; exit 1; }
git -C /repo apply --check $M/patch.diff 2>/dev/null && ONHEAD=yes || ONHEAD=no
# without patch: demo passes
cp $ALLT $DEST/
go test -p 4 -vet=off -count=1 -run "$RX" ./$DEST/ > $M/confirm_pristine.log 2>&1 && PR=pass || PR=fail
git apply $M/patch.diff
go build ./... > $M/confirm_build.log 2>&1 && B=ok || B=fail
go test -p 4 -vet=off -count=1 -run "$RX" ./$DEST/ > $M/confirm_mutant.log 2>&1 && MU=pass || MU=fail
for f in $ALLT; do rm -f $DEST/$(basename $f); done
DIRS=$(grep '^+++ b/' $M/patch.diff | sed 's#+++ b/##' | xargs -n1 dirname | sort -u | sed 's#^#./#; s#$#/...#' | tr '\n' ' ')
# packages whose tests fail on the pristine tree in this sandbox for environmental reasons (expired test
# certificates, no DNS) are left out: crypto/storage/vault, vdr/didweb, auth/client/iam, didman/api/v1, network (root)
PKGS=$(go list $DIRS 2>/dev/null | grep -v -E "${SKIPPKG:-crypto/storage/vault$|vdr/didweb$|auth/client/iam$|didman/api/v1$|nuts-node/network$}" | tr '\n' ' ')
go test -p 4 -vet=off -count=1 $PKGS > $M/confirm_existing.log 2>&1 && EX=pass || EX=fail
git checkout -q -- .
res "applies_on_head=$ONHEAD build=$B demo_pristine=$PR demo_mutant=$MU existing_tests($DIRS)=$EX"
if [ $B = ok ] && [ $PR = pass ] && [ $MU = fail ] && [ $EX = pass ]; then
  D=/verif/seeded/$P-m$SK; mkdir -p $D
  cp $M/patch.diff $D/; cp $ALLT $D/; cp $M/README.md $D/README.md
  cat > $D/meta.json <<EOM
{"property": "$P", "id": "$P-m$SK", "demo": "$(basename $DEMO)", "demo_dir": "$DEST", "demo_run": "go test -vet=off -count=1 -run '$RX' ./$DEST/",
 "confirmed": {"patch_applies_on_pinned": true, "patch_applies_on_repo_head": "$ONHEAD", "go_build": "$B", "demo_on_pristine": "$PR", "demo_with_patch": "$MU", "existing_tests_with_patch": "$EX", "existing_tests_run": "$DIRS"},
 "needs": "see README.md", "detected_by": "TBD"}
EOM
fi
