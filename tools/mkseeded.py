#!/usr/bin/env python3
"""mkseeded.py: writes seeded/RESULTS.md from the meta.json files"""
import json, os
V = os.path.dirname(os.path.dirname(os.path.abspath(__file__)))
rows = ["| change | property | what the change does (README.md, first line) | caught by (quick tier, sites) | notes |", "|---|---|---|---|---|"]
n = det = 0
for d in sorted(os.listdir(os.path.join(V, "seeded"))):
    mp = os.path.join(V, "seeded", d, "meta.json")
    if not os.path.exists(mp):
        continue
    m = json.load(open(mp))
    title = ""
    rp = os.path.join(V, "seeded", d, "README.md")
    if os.path.exists(rp):
        for l in open(rp):
            if l.strip():
                title = l.strip().lstrip("# ").replace("|", "/")
                break
    db = m.get("detected_by")
    n += 1
    if isinstance(db, list) and db:
        det += 1
        db = "; ".join(db)
    rows.append("| %s | %s | %s | %s | %s |" % (d, m.get("property"), title[:160], str(db)[:260].replace("|", "/"), "; ".join(m.get("eval_notes") or [])[:400].replace("|", "/")))
open(os.path.join(V, "seeded", "RESULTS.md"), "w").write(
    "# Seeded changes and which checks catch them\n\n%d changes, %d caught by the quick tier of the registered checks "
    "(verdicts recorded by tools/eval_seeded.py, which applies each change to a scratch copy of /repo HEAD - "
    "`patch_head.diff` where a fix: commit touched the same lines - and runs `./check <property> quick`).\n\n" % (n, det) + "\n".join(rows) + "\n")
print(n, det)
