// Package st holds nothing; the self-test harnesses are overlaid into it.
package st
