module selftest

go 1.23
