package symgo

import (
	"fmt"
	"strings"

	"golang.org/x/tools/go/ssa"
)

// Goroutine scheduler: every interpreted goroutine is a real goroutine, but only
// the holder of the baton runs. Context switches happen only at scheduling points
// (sync/atomic operations, mutex operations, vYield, blocking operations); the
// goroutine that continues is a nondeterministic choice (a symbolic variable,
// concretised by forking).

type gthread struct {
	id      int
	resume  chan struct{}
	done    bool
	blocked func() bool
	what    string
	depth   int
	stack   []string
}

type sched struct {
	threads  []*gthread
	cur      *gthread
	kill     chan struct{}
	abort    interface{} // panic value to re-raise on the main goroutine
	mainWake chan struct{}
}

type killed struct{}

func (p *Path) fatal(msg string) {
	// unrecoverable runtime failure (deadlock, unlock of unlocked mutex): a violation
	p.w.solver.Push()
	p.recordViolation("fatal:"+msg, "fatal error: "+msg, append([]string{}, p.stack...))
	p.w.solver.Pop()
	p.abort(abortDone, "fatal: %s", msg)
}

func (p *Path) spawn(fr *frame, instr *ssa.Go, fn Value, args []Value) {
	if p.gor == nil {
		main := &gthread{id: 0, resume: make(chan struct{})}
		p.gor = &sched{threads: []*gthread{main}, cur: main, kill: make(chan struct{})}
	}
	s := p.gor
	t := &gthread{id: len(s.threads), resume: make(chan struct{})}
	s.threads = append(s.threads, t)
	w := p.w
	go func() {
		select {
		case <-t.resume:
		case <-s.kill:
			return
		}
		defer func() {
			r := recover()
			t.done = true
			if r != nil {
				if _, ok := r.(killed); ok {
					return
				}
				if tp, ok := r.(targetPanic); ok {
					// unrecovered panic in a goroutine crashes the process
					func() {
						defer func() {
							if r2 := recover(); r2 != nil {
								s.abort = r2
							}
						}()
						p.reportPanic(tp)
						p.abort(abortDone, "panic in goroutine")
					}()
				} else {
					s.abort = r
				}
				// wake main to propagate
				s.cur = s.threads[0]
				s.threads[0].resume <- struct{}{}
				return
			}
			// normal termination: pass the baton on
			p.switchAway(t, true)
		}()
		p.depth, p.stack = 0, nil
		w.call(nil, 0, fn, args)
	}()
}

// runnable threads other than / including cur
func (s *sched) runnable(except *gthread) []*gthread {
	var out []*gthread
	for _, t := range s.threads {
		if t.done || t == except {
			continue
		}
		if t.blocked != nil && !t.blocked() {
			continue
		}
		out = append(out, t)
	}
	return out
}

// yield is a scheduling point.
func (p *Path) yield(what string) {
	s := p.gor
	if s == nil || p.atomicDepth > 0 {
		return
	}
	cur := s.cur
	if p.preemptions >= p.preemptBound {
		return // context bound reached: no further preemption of a runnable goroutine
	}
	cands := s.runnable(nil)
	if len(cands) <= 1 {
		return
	}
	// current thread first so that choice 0 = no preemption
	ordered := []*gthread{cur}
	for _, t := range cands {
		if t != cur {
			ordered = append(ordered, t)
		}
	}
	idx := p.chooseIndex(len(ordered), "sched")
	next := ordered[idx]
	if next == cur {
		return
	}
	p.preemptions++
	p.transfer(cur, next)
}

// syncInternal reports whether the atomic/mutex operation executing in fr is issued by the
// implementation of package sync itself (sync.Map, sync.Once, ...): those are treated as
// invisible steps of a linearizable library operation.
func syncInternal(fr *frame) bool {
	for c := fr.caller; c != nil; c = c.caller {
		if c.fn.Pkg == nil {
			if o := c.fn.Origin(); o != nil && o.Pkg != nil {
				switch o.Pkg.Pkg.Path() {
				case "sync/atomic":
					continue
				case "sync":
					return true
				}
			}
			return false
		}
		switch c.fn.Pkg.Pkg.Path() {
		case "sync/atomic":
			continue
		case "sync":
			return true
		}
		return false
	}
	return false
}

// transfer hands the baton from cur to next and waits until cur is resumed.
func (p *Path) transfer(cur, next *gthread) {
	s := p.gor
	cur.depth, cur.stack = p.depth, p.stack
	s.cur = next
	next.resume <- struct{}{}
	select {
	case <-cur.resume:
	case <-s.kill:
		panic(killed{})
	}
	p.depth, p.stack = cur.depth, cur.stack
	if cur.id == 0 && s.abort != nil {
		a := s.abort
		s.abort = nil
		panic(a)
	}
}

// switchAway is called when thread t terminates (finished=true).
func (p *Path) switchAway(t *gthread, finished bool) {
	s := p.gor
	cands := s.runnable(t)
	if len(cands) == 0 {
		// everything else is blocked or done: if main is blocked it is a deadlock
		main := s.threads[0]
		if !main.done {
			s.abort = pathAbort{abortDone, "deadlock"}
			func() {
				defer func() {
					if r := recover(); r != nil {
						s.abort = r
					}
				}()
				p.fatal("all goroutines are asleep - deadlock")
			}()
			s.cur = main
			main.resume <- struct{}{}
		}
		return
	}
	var next *gthread
	func() {
		defer func() {
			if r := recover(); r != nil {
				s.abort = r
				next = s.threads[0]
			}
		}()
		next = cands[p.chooseIndex(len(cands), "sched")]
	}()
	s.cur = next
	next.resume <- struct{}{}
}

// blockUntil suspends the current goroutine until cond holds.
func (p *Path) blockUntil(cond func() bool, what string) {
	if cond() {
		return
	}
	s := p.gor
	if s == nil {
		p.fatal("deadlock: " + what + " blocks forever (single goroutine)")
	}
	cur := s.cur
	for !cond() {
		cur.blocked = cond
		cur.what = what
		cands := s.runnable(cur)
		if len(cands) == 0 {
			cur.blocked = nil
			p.fatal("all goroutines are asleep - deadlock (" + what + ")")
		}
		next := cands[p.chooseIndex(len(cands), "sched")]
		p.transfer(cur, next)
		cur.blocked = nil
	}
}

// endThreads terminates all parked goroutines at the end of a path.
func (p *Path) endThreads() {
	if p.gor != nil {
		close(p.gor.kill)
		p.gor = nil
	}
}

func (p *Path) reportPanic(tp targetPanic) {
	site := tp.site
	kind := "explicit"
	if tp.runtime {
		kind = classifyRuntime(tp.msg)
	}
	msg := tp.msg
	if msg == "" {
		msg = p.w.panicText(tp.v)
	}
	if tp.runtime {
		// a runtime panic inside the implementation of package sync / sync/atomic / runtime internals is a gap of the
		// engine's model of those packages (they are interpreted from source, with unsafe tricks), not a finding
		for _, pre := range []string{"(*sync.", "sync.", "(*sync/atomic.", "sync/atomic.", "internal/", "(*internal/", "runtime."} {
			if strings.HasPrefix(site, pre) {
				p.unsupported("runtime panic inside %s (%s): not modelled", site, msg)
			}
		}
	}
	p.w.solver.Push()
	p.recordViolation(fmt.Sprintf("panic@%s:%s", site, kind), "panic: "+msg, append([]string{}, p.stack...))
	p.w.solver.Pop()
}
