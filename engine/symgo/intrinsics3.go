package symgo

import (
	"fmt"

	"github.com/twmb/murmur3"
)

// murmur3.SeedSum128 is assembly on amd64: concrete inputs are hashed for real,
// symbolic inputs yield two uninterpreted 64-bit functions of the input bytes.
func extMurmur128(fr *frame, a []Value) Value {
	tt := fr.w.tt
	s1, s2 := a[0].(*Term), a[1].(*Term)
	in := sliceBytes(a[2].(Slice))
	conc := s1.IsConst() && s2.IsConst()
	for _, b := range in {
		if !b.IsConst() {
			conc = false
			break
		}
	}
	if conc {
		bs := make([]byte, len(in))
		for i, b := range in {
			bs[i] = byte(b.C)
		}
		h1, h2 := murmur3.SeedSum128(s1.C, s2.C, bs)
		return Tuple{tt.BVC(64, h1), tt.BVC(64, h2)}
	}
	args := append([]*Term{s1, s2}, in...)
	return Tuple{
		tt.UF(fmt.Sprintf("murmur128a_n%d", len(in)), BV(64), args...),
		tt.UF(fmt.Sprintf("murmur128b_n%d", len(in)), BV(64), args...),
	}
}

func init() {
	intrinsics["github.com/twmb/murmur3.SeedSum128"] = extMurmur128
}
