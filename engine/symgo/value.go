package symgo

import (
	"fmt"
	"go/types"
	"strings"

	"golang.org/x/tools/go/ssa"
)

// Value representation (boxed in interface{}):
//
//   *Term                bool, intN, uintN, uintptr, floatN (Bool / BV / FP sorts)
//   Str                  string: concrete S, or per-byte BV8 terms B (len fixed)
//   *Value               pointer (nil pointer = (*Value)(nil))
//   Struct, Array        aggregates (mutable containers, copied by load/store)
//   Slice                Go slice over []Value (native aliasing semantics)
//   *Map                 map (nil map = (*Map)(nil))
//   *Chan                channel (minimal)
//   Iface                interface value {T,V}; nil interface = Iface{}
//   *ssa.Function, *ssa.Builtin, *Closure   function values
//   Tuple                multiple results
//   UnsafePtr            unsafe.Pointer wrapping a pointer value
//   RType                reflect-lite type handle

type Value interface{}

type Str struct {
	S string
	B []*Term // if non-nil: symbolic bytes, len(B) is the length, S unused
}

type Struct []Value
type Array []Value
type Slice []Value
type Tuple []Value

type Iface struct {
	T types.Type
	V Value
}

type Closure struct {
	Fn  *ssa.Function
	Env []Value
}

type UnsafePtr struct {
	P Value // *Value, Slice-element pointer, or nil
}

type RType struct{ T types.Type }

type Chan struct {
	buf    []Value
	cap    int
	closed bool
}

type bad struct{}

func (s Str) Len() int {
	if s.B != nil {
		return len(s.B)
	}
	return len(s.S)
}

func (s Str) IsConc() bool {
	if s.B == nil {
		return true
	}
	for _, b := range s.B {
		if !b.IsConst() {
			return false
		}
	}
	return true
}

// Conc returns the concrete string (only valid if IsConc).
func (s Str) Conc() string {
	if s.B == nil {
		return s.S
	}
	bs := make([]byte, len(s.B))
	for i, b := range s.B {
		bs[i] = byte(b.C)
	}
	return string(bs)
}

func (w *Worker) strByte(s Str, i int) *Term {
	if s.B != nil {
		return s.B[i]
	}
	return w.tt.BVC(8, uint64(s.S[i]))
}

func (w *Worker) strBytes(s Str) []*Term {
	if s.B != nil {
		return s.B
	}
	out := make([]*Term, len(s.S))
	for i := range out {
		out[i] = w.tt.BVC(8, uint64(s.S[i]))
	}
	return out
}

// mkStr normalises: all-constant byte vectors become concrete strings.
func mkStr(b []*Term) Str {
	for _, t := range b {
		if !t.IsConst() {
			return Str{B: b}
		}
	}
	bs := make([]byte, len(b))
	for i, t := range b {
		bs[i] = byte(t.C)
	}
	return Str{S: string(bs)}
}

func (w *Worker) strSlice(s Str, lo, hi int) Str {
	if s.B != nil {
		return mkStr(s.B[lo:hi:hi])
	}
	return Str{S: s.S[lo:hi]}
}

func (w *Worker) strConcat(a, b Str) Str {
	if a.B == nil && b.B == nil {
		return Str{S: a.S + b.S}
	}
	out := make([]*Term, 0, a.Len()+b.Len())
	out = append(out, w.strBytes(a)...)
	out = append(out, w.strBytes(b)...)
	return Str{B: out}
}

// ---------------------------------------------------------------------------

func isSigned(t types.Type) bool {
	b, ok := t.Underlying().(*types.Basic)
	return ok && b.Info()&types.IsInteger != 0 && b.Info()&types.IsUnsigned == 0
}

func basicSort(b *types.Basic) (Sort, bool) {
	switch b.Kind() {
	case types.Bool, types.UntypedBool:
		return BoolSort, true
	case types.Int8, types.Uint8:
		return BV(8), true
	case types.Int16, types.Uint16:
		return BV(16), true
	case types.Int32, types.Uint32, types.UntypedRune:
		return BV(32), true
	case types.Int, types.Uint, types.Int64, types.Uint64, types.Uintptr, types.UntypedInt:
		return BV(64), true
	case types.Float64, types.UntypedFloat:
		return FP(64), true
	case types.Float32:
		return FP(32), true
	}
	return Sort{}, false
}

func typeSort(t types.Type) (Sort, bool) {
	if b, ok := t.Underlying().(*types.Basic); ok {
		return basicSort(b)
	}
	return Sort{}, false
}

func (w *Worker) zero(t types.Type) Value {
	switch t := t.(type) {
	case *types.Basic:
		if t.Kind() == types.UntypedNil {
			panic("untyped nil has no zero value")
		}
		if t.Info()&types.IsString != 0 {
			return Str{}
		}
		if t.Kind() == types.UnsafePointer {
			return UnsafePtr{}
		}
		if t.Info()&types.IsComplex != 0 {
			return unsupportedValue{"complex numbers"}
		}
		s, ok := basicSort(t)
		if !ok {
			panic(fmt.Sprintf("zero: basic %v", t))
		}
		switch s.K {
		case KBool:
			return w.tt.False
		case KBV:
			return w.tt.BVC(s.W, 0)
		default:
			return w.tt.FPC(s.W, 0)
		}
	case *types.Pointer:
		return (*Value)(nil)
	case *types.Array:
		a := make(Array, t.Len())
		for i := range a {
			a[i] = w.zero(t.Elem())
		}
		return a
	case *types.Named, *types.Alias:
		return w.zero(t.Underlying())
	case *types.Interface:
		return Iface{}
	case *types.Slice:
		return Slice(nil)
	case *types.Struct:
		s := make(Struct, t.NumFields())
		for i := range s {
			s[i] = w.zero(t.Field(i).Type())
		}
		return s
	case *types.Tuple:
		if t.Len() == 1 {
			return w.zero(t.At(0).Type())
		}
		s := make(Tuple, t.Len())
		for i := range s {
			s[i] = w.zero(t.At(i).Type())
		}
		return s
	case *types.Chan:
		return (*Chan)(nil)
	case *types.Map:
		return (*Map)(nil)
	case *types.Signature:
		return (*ssa.Function)(nil)
	case *types.TypeParam:
		panic("zero of type parameter (InstantiateGenerics required)")
	}
	panic(fmt.Sprintf("zero: unexpected type %T %v", t, t))
}

type unsupportedValue struct{ why string }

// load reads a value of type T from addr, deep-copying aggregates.
func load(T types.Type, addr *Value) Value {
	switch T := T.Underlying().(type) {
	case *types.Struct:
		v := (*addr).(Struct)
		a := make(Struct, len(v))
		for i := range a {
			a[i] = load(T.Field(i).Type(), &v[i])
		}
		return a
	case *types.Array:
		v := (*addr).(Array)
		a := make(Array, len(v))
		for i := range a {
			a[i] = load(T.Elem(), &v[i])
		}
		return a
	default:
		return *addr
	}
}

// store writes v (type T) into addr, copying aggregates element-wise so that
// interior pointers stay valid.
func store(T types.Type, addr *Value, v Value) {
	switch T := T.Underlying().(type) {
	case *types.Struct:
		lhs := (*addr).(Struct)
		rhs := v.(Struct)
		for i := range lhs {
			store(T.Field(i).Type(), &lhs[i], rhs[i])
		}
	case *types.Array:
		lhs := (*addr).(Array)
		rhs := v.(Array)
		for i := range lhs {
			store(T.Elem(), &lhs[i], rhs[i])
		}
	default:
		*addr = v
	}
}

// copyVal deep-copies aggregates (struct/array) so the result is unaliased.
func copyVal(v Value) Value {
	switch v := v.(type) {
	case Struct:
		a := make(Struct, len(v))
		for i := range a {
			a[i] = copyVal(v[i])
		}
		return a
	case Array:
		a := make(Array, len(v))
		for i := range a {
			a[i] = copyVal(v[i])
		}
		return a
	}
	return v
}

// ---------------------------------------------------------------------------
// Equality as a Bool term (structural).

func (w *Worker) equals(t types.Type, x, y Value) *Term {
	tt := w.tt
	switch x := x.(type) {
	case *Term:
		return tt.Eq(x, y.(*Term))
	case Str:
		return w.strEq(x, y.(Str))
	case *Value:
		return tt.BoolC(x == y.(*Value))
	case Struct:
		ys := y.(Struct)
		st := t.Underlying().(*types.Struct)
		var cs []*Term
		for i := range x {
			if st.Field(i).Name() == "_" {
				continue
			}
			cs = append(cs, w.equals(st.Field(i).Type(), x[i], ys[i]))
		}
		return tt.And(cs...)
	case Array:
		ya := y.(Array)
		et := t.Underlying().(*types.Array).Elem()
		var cs []*Term
		for i := range x {
			cs = append(cs, w.equals(et, x[i], ya[i]))
		}
		return tt.And(cs...)
	case Iface:
		yi := y.(Iface)
		if x.T == nil || yi.T == nil {
			return tt.BoolC(x.T == nil && yi.T == nil)
		}
		if !types.Identical(x.T, yi.T) {
			return tt.False
		}
		if !types.Comparable(x.T) {
			panic(runtimePanic("comparing uncomparable type " + x.T.String()))
		}
		return w.equals(x.T, x.V, yi.V)
	case *Map:
		return tt.BoolC(x == y.(*Map))
	case *Chan:
		return tt.BoolC(x == y.(*Chan))
	case UnsafePtr:
		return tt.BoolC(ptrIdent(x.P) == ptrIdent(y.(UnsafePtr).P))
	case RType:
		return tt.BoolC(types.Identical(x.T, y.(RType).T))
	case Slice:
		// only comparison with nil is legal
		return tt.BoolC(x == nil && y.(Slice) == nil)
	case *ssa.Function, *Closure, *ssa.Builtin:
		return tt.BoolC(isNilFunc(x) && isNilFunc(y))
	}
	panic(fmt.Sprintf("equals: unhandled %T", x))
}

func ptrIdent(p Value) interface{} {
	if v, ok := p.(*Value); ok {
		if v == nil {
			return nil
		}
		return v
	}
	return p
}

func isNilFunc(v Value) bool {
	switch f := v.(type) {
	case *ssa.Function:
		return f == nil
	case *Closure:
		return f == nil
	case *ssa.Builtin:
		return f == nil
	}
	return false
}

func (w *Worker) strEq(a, b Str) *Term {
	if a.Len() != b.Len() {
		return w.tt.False
	}
	if a.B == nil && b.B == nil {
		return w.tt.BoolC(a.S == b.S)
	}
	cs := make([]*Term, 0, a.Len())
	for i := 0; i < a.Len(); i++ {
		cs = append(cs, w.tt.Eq(w.strByte(a, i), w.strByte(b, i)))
	}
	return w.tt.And(cs...)
}

// strLess builds a < b (lexicographic, bytewise) as a term.
func (w *Worker) strLess(a, b Str, orEq bool) *Term {
	if a.B == nil && b.B == nil {
		if orEq {
			return w.tt.BoolC(a.S <= b.S)
		}
		return w.tt.BoolC(a.S < b.S)
	}
	tt := w.tt
	n := a.Len()
	if b.Len() < n {
		n = b.Len()
	}
	// result after common prefix
	var tail *Term
	if a.Len() < b.Len() {
		tail = tt.True
	} else if a.Len() == b.Len() {
		tail = tt.BoolC(orEq)
	} else {
		tail = tt.False
	}
	res := tail
	for i := n - 1; i >= 0; i-- {
		x, y := w.strByte(a, i), w.strByte(b, i)
		res = tt.Ite(tt.Eq(x, y), res, tt.ULT(x, y))
	}
	return res
}

// ---------------------------------------------------------------------------
// Maps: insertion-ordered association lists with (possibly symbolic) keys.

type mapEntry struct {
	k, v    Value
	deleted bool
}

type Map struct {
	kt      types.Type
	entries []*mapEntry
	index   map[string]int // concrete-key fast index -> entries position
	n       int
	nsym    int // number of live entries with symbolic keys
}

func newMap(kt types.Type) *Map {
	return &Map{kt: kt, index: map[string]int{}}
}

// concKey renders a fully concrete key canonically; ok=false if symbolic.
func concKey(v Value) (string, bool) {
	var sb strings.Builder
	if !writeConcKey(&sb, v) {
		return "", false
	}
	return sb.String(), true
}

func writeConcKey(sb *strings.Builder, v Value) bool {
	switch v := v.(type) {
	case *Term:
		if !v.IsConst() {
			return false
		}
		if v.Sort.K == KFP {
			fmt.Fprintf(sb, "f%v;", v.F)
		} else {
			fmt.Fprintf(sb, "%d;", v.C)
		}
		return true
	case Str:
		if !v.IsConc() {
			return false
		}
		s := v.Conc()
		fmt.Fprintf(sb, "s%d:%s;", len(s), s)
		return true
	case *Value:
		fmt.Fprintf(sb, "p%p;", v)
		return true
	case Struct:
		sb.WriteString("{")
		for _, f := range v {
			if !writeConcKey(sb, f) {
				return false
			}
		}
		sb.WriteString("}")
		return true
	case Array:
		sb.WriteString("[")
		for _, f := range v {
			if !writeConcKey(sb, f) {
				return false
			}
		}
		sb.WriteString("]")
		return true
	case Iface:
		if v.T == nil {
			sb.WriteString("nil;")
			return true
		}
		sb.WriteString("i<" + v.T.String() + ">")
		return writeConcKey(sb, v.V)
	case *Map:
		fmt.Fprintf(sb, "m%p;", v)
		return true
	case *Chan:
		fmt.Fprintf(sb, "c%p;", v)
		return true
	case RType:
		sb.WriteString("rt<" + v.T.String() + ">")
		return true
	case UnsafePtr:
		fmt.Fprintf(sb, "u%p;", v.P)
		return true
	}
	return false
}

func (m *Map) Len() int { return m.n }

// find returns the entry whose key equals k, forking on symbolic equalities.
func (p *Path) mapFind(m *Map, k Value) *mapEntry {
	if m == nil {
		return nil
	}
	w := p.w
	ck, conc := concKey(k)
	if conc && m.nsym == 0 {
		if i, ok := m.index[ck]; ok {
			return m.entries[i]
		}
		return nil
	}
	for _, e := range m.entries {
		if e.deleted {
			continue
		}
		eq := w.equals(m.kt, e.k, k)
		if p.branch(eq) {
			return e
		}
	}
	return nil
}

func (p *Path) mapInsert(m *Map, k, v Value) {
	if m == nil {
		panic(runtimePanic("assignment to entry in nil map"))
	}
	if e := p.mapFind(m, k); e != nil {
		e.v = copyVal(v)
		return
	}
	e := &mapEntry{k: copyVal(k), v: copyVal(v)}
	m.entries = append(m.entries, e)
	m.n++
	if ck, ok := concKey(k); ok {
		m.index[ck] = len(m.entries) - 1
	} else {
		m.nsym++
	}
}

func (p *Path) mapDelete(m *Map, k Value) {
	if m == nil {
		return
	}
	if e := p.mapFind(m, k); e != nil {
		e.deleted = true
		m.n--
		if ck, ok := concKey(e.k); ok {
			delete(m.index, ck)
		} else {
			m.nsym--
		}
	}
}

func (m *Map) live() []*mapEntry {
	if m == nil {
		return nil
	}
	out := make([]*mapEntry, 0, m.n)
	for _, e := range m.entries {
		if !e.deleted {
			out = append(out, e)
		}
	}
	return out
}

// iterators

type iter interface {
	next(p *Path) Tuple
}

type mapIter struct {
	m    *Map
	rest []*mapEntry
	init bool
}

func (it *mapIter) next(p *Path) Tuple {
	if !it.init {
		it.rest = it.m.live()
		it.init = true
	}
	// skip entries deleted during iteration
	for len(it.rest) > 0 {
		idx := 0
		if p.mapOrderNondet && len(it.rest) > 1 {
			idx = p.chooseIndex(len(it.rest), "maporder")
		}
		e := it.rest[idx]
		it.rest = append(it.rest[:idx:idx], it.rest[idx+1:]...)
		if e.deleted {
			continue
		}
		return Tuple{p.w.tt.True, copyVal(e.k), copyVal(e.v)}
	}
	return Tuple{p.w.tt.False, nil, nil}
}

type strIter struct {
	s Str
	i int
}

func (it *strIter) next(p *Path) Tuple {
	tt := p.w.tt
	if it.i >= it.s.Len() {
		return Tuple{tt.False, tt.BVC(64, 0), tt.BVC(32, 0)}
	}
	r, sz := p.decodeRune(it.s, it.i)
	idx := it.i
	it.i += sz
	return Tuple{tt.True, tt.BVC(64, uint64(idx)), r}
}

// ---------------------------------------------------------------------------
// Debug printing

func (w *Worker) show(v Value) string {
	var sb strings.Builder
	w.writeValue(&sb, v, 0)
	return sb.String()
}

func (w *Worker) writeValue(sb *strings.Builder, v Value, d int) {
	if d > 4 {
		sb.WriteString("…")
		return
	}
	switch v := v.(type) {
	case nil:
		sb.WriteString("<nil>")
	case *Term:
		if v.IsConst() {
			switch v.Sort.K {
			case KBool:
				fmt.Fprintf(sb, "%v", v.C == 1)
			case KBV:
				fmt.Fprintf(sb, "%d", v.C)
			default:
				fmt.Fprintf(sb, "%v", v.F)
			}
		} else {
			s := v.String()
			if len(s) > 80 {
				s = s[:80] + "…"
			}
			sb.WriteString(s)
		}
	case Str:
		if v.IsConc() {
			fmt.Fprintf(sb, "%q", v.Conc())
		} else {
			fmt.Fprintf(sb, "symstr[%d]", v.Len())
		}
	case *Value:
		if v == nil {
			sb.WriteString("nilptr")
		} else {
			sb.WriteString("&")
			w.writeValue(sb, *v, d+1)
		}
	case Struct:
		sb.WriteString("{")
		for i, f := range v {
			if i > 0 {
				sb.WriteString(", ")
			}
			w.writeValue(sb, f, d+1)
		}
		sb.WriteString("}")
	case Array:
		sb.WriteString("[")
		for i, f := range v {
			if i > 0 {
				sb.WriteString(", ")
			}
			if i > 8 {
				sb.WriteString("…")
				break
			}
			w.writeValue(sb, f, d+1)
		}
		sb.WriteString("]")
	case Slice:
		if v == nil {
			sb.WriteString("nilslice")
			return
		}
		sb.WriteString("[]{")
		for i, f := range v {
			if i > 0 {
				sb.WriteString(", ")
			}
			if i > 8 {
				sb.WriteString("…")
				break
			}
			w.writeValue(sb, f, d+1)
		}
		sb.WriteString("}")
	case Iface:
		if v.T == nil {
			sb.WriteString("nil-iface")
		} else {
			sb.WriteString("(" + v.T.String() + ")")
			w.writeValue(sb, v.V, d+1)
		}
	case *Map:
		if v == nil {
			sb.WriteString("nilmap")
		} else {
			fmt.Fprintf(sb, "map[%d]", v.n)
		}
	case *ssa.Function:
		if v == nil {
			sb.WriteString("nilfunc")
		} else {
			sb.WriteString(v.String())
		}
	case *Closure:
		sb.WriteString("closure " + v.Fn.String())
	case Tuple:
		sb.WriteString("(")
		for i, f := range v {
			if i > 0 {
				sb.WriteString(", ")
			}
			w.writeValue(sb, f, d+1)
		}
		sb.WriteString(")")
	default:
		fmt.Fprintf(sb, "%T", v)
	}
}
