package symgo

import (
	"fmt"
	"go/token"
	"go/types"
	"os"
	"runtime/debug"
	"sort"
	"strings"
	"sync"
	"time"

	"golang.org/x/tools/go/ssa"
)

func classifyRuntime(msg string) string {
	switch {
	case strings.Contains(msg, "nil pointer") || strings.Contains(msg, "nil map"):
		return "nil"
	case strings.Contains(msg, "index out of range") || strings.Contains(msg, "slice bounds") || strings.Contains(msg, "makeslice"):
		return "bounds"
	case strings.Contains(msg, "interface conversion"):
		return "typeassert"
	case strings.Contains(msg, "divide by zero"):
		return "div0"
	case strings.Contains(msg, "negative shift"):
		return "shift"
	}
	return "runtime"
}

func (w *Worker) panicText(v Value) string {
	if i, ok := v.(Iface); ok && i.T != nil {
		// try Error() / String() concretely, never fail
		var out string
		func() {
			defer func() { recover() }()
			if m := w.findMethod(i.T, "Error"); m != nil {
				if s, ok := w.call(nil, token.NoPos, m, []Value{i.V}).(Str); ok && s.IsConc() {
					out = s.Conc()
				}
			}
		}()
		if out != "" {
			return out
		}
		if s, ok := i.V.(Str); ok && s.IsConc() {
			return s.Conc()
		}
		return "(" + i.T.String() + ") " + w.show(i.V)
	}
	return w.show(v)
}

func NewWorker(id int, prog *ssa.Program, hpkg *ssa.Package, cfg *Config) (*Worker, error) {
	w := &Worker{
		id: id, prog: prog, hpkg: hpkg, cfg: cfg,
		tt:        NewTermTable(),
		globals:   map[*ssa.Global]*Value{},
		inited:    map[*ssa.Package]bool{},
		initFail:  map[string]string{},
		dirty:     map[*ssa.Package]bool{},
		funcsSeen: map[*ssa.Function]bool{},
		pdom:      map[*ssa.Function]*pdomInfo{},
	}
	s, err := NewSolver(w.tt, cfg.IntMode, cfg.QueryTimeout, cfg.SolverBin)
	if err != nil {
		return nil, err
	}
	if len(cfg.ShadowBin) > 0 {
		sh, err := NewSolver(w.tt, cfg.IntMode, cfg.QueryTimeout, cfg.ShadowBin)
		if err != nil {
			return nil, err
		}
		s.shadow = sh
	}
	w.solver = s
	if cfg.SmtLog != "" && id == 0 {
		if f, err := os.Create(cfg.SmtLog); err == nil {
			s.SetLog(f)
		}
	}
	if rt := prog.ImportedPackage("runtime"); rt != nil {
		if t := rt.Type("errorString"); t != nil {
			w.runtimeErrT = t.Type()
		}
	}
	if ep := prog.ImportedPackage("errors"); ep != nil {
		if t := ep.Type("errorString"); t != nil {
			w.errorStringT = types.NewPointer(t.Type())
		}
	}
	if w.runtimeErrT == nil || w.errorStringT == nil {
		return nil, fmt.Errorf("program lacks runtime/errors packages")
	}
	return w, nil
}

func (w *Worker) Close() { w.solver.Close() }

// RunPath executes the harness entry following prefix (and exploring beyond it).
func (w *Worker) RunPath(entry *ssa.Function, prefix []Decision, pinned []string) (res *PathResult) {
	return w.RunPathSeeded(entry, prefix, pinned, false, 0)
}

func (w *Worker) RunPathSeeded(entry *ssa.Function, prefix []Decision, pinned []string, seeded bool, seed uint64) (res *PathResult) {
	res = &PathResult{}
	p := &Path{w: w, prefix: prefix, res: res, pinned: pinned, mapOrderNondet: w.cfg.MapOrderNondet, seeded: seeded, rng: seed, preemptBound: 2}
	w.path = p
	w.resetDirty()
	w.solver.Push()
	defer func() {
		r := recover()
		p.endThreads()
		p.rollbackWrites()
		for w.solver.Depth() > 0 {
			w.solver.Pop()
		}
		res.Steps = p.steps
		w.stats.Steps += int64(p.steps)
		res.Covers = p.coverList()
		res.Trace = p.trace
		res.Observed = p.observed
		if r == nil {
			if res.End == "" {
				res.End = "ok"
			}
			return
		}
		switch r := r.(type) {
		case stopSignal:
			res.End = "unsupported"
			res.Reason = "vStop outside vRunUntilStop"
		case pathAbort:
			res.Reason = r.reason
			switch r.kind {
			case abortInfeasible:
				res.End = "infeasible"
			case abortUnsupported:
				res.End = "unsupported"
				res.Reason += " @ " + p.where()
			case abortBudget:
				res.End = "budget"
				res.Reason += " @ " + p.where()
			case abortCut:
				res.End = "cut"
			case abortSolver:
				res.End = "solver"
			case abortDone:
				res.End = "ok"
			}
		case internalErr:
			res.End = "internal"
			res.Reason = fmt.Sprintf("interpreter error: %s @ %s", r.msg, r.where)
			if os.Getenv("SYMGO_STACK") != "" {
				res.Reason += "\n" + r.stack
			}
		default:
			res.End = "internal"
			res.Reason = fmt.Sprintf("interpreter error: %v @ %s\n%s", r, p.where(), debug.Stack())
		}
	}()
	func() {
		defer func() {
			if r := recover(); r != nil {
				if tp, ok := r.(targetPanic); ok {
					// uncaught panic of the program under test
					p.reportPanic(tp)
					res.End = "panic"
					return
				}
				panic(r)
			}
		}()
		w.ensureInit(w.hpkg)
		if len(w.initFail) > 0 {
			var fs []string
			for k, v := range w.initFail {
				if !w.cfg.InitSkip["ok:"+k] {
					fs = append(fs, k+": "+v)
				}
			}
			if len(fs) > 0 {
				sort.Strings(fs)
				p.unsupported("package initialisation incomplete: %s", strings.Join(fs, "; "))
			}
		}
		w.callSSA(nil, token.NoPos, entry, nil, nil)
		// a concrete witness of this path (for the evidence samples): a model of the path condition
		if w.samplesTaken < 3 && p.pinned == nil && !p.seeded && len(p.nondets) > 0 && len(res.Violations) == 0 {
			w.samplesTaken++
			if w.solver.Check() == Sat {
				if vals, err := w.solver.GetValues(symbolicOnly(nondetTerms(p.nondets))); err == nil {
					var sb strings.Builder
					j := 0
					for _, n := range p.nondets {
						if n.T.IsConst() {
							continue
						}
						if j < 24 {
							fmt.Fprintf(&sb, "%s=%s ", n.Name, fmtModelValue(vals[j]))
						}
						j++
					}
					res.Sample = fmt.Sprintf("inputs{%s} -> decisions=%d asserts=%d discharged=%d covers=%v", strings.TrimSpace(sb.String()), len(p.trace), res.Asserts, res.Discharged, p.coverList())
				}
			}
		}
	}()
	return
}

func (p *Path) where() string {
	if len(p.stack) == 0 {
		return "?"
	}
	n := len(p.stack)
	lo := n - 4
	if lo < 0 {
		lo = 0
	}
	return strings.Join(p.stack[lo:], " > ")
}

// ---------------------------------------------------------------------------

type HarnessReport struct {
	Entry         string            `json:"entry"`
	Paths         int               `json:"paths"`
	PathsOK       int               `json:"paths_ok"`
	Infeasible    int               `json:"infeasible"`
	Unsupported   int               `json:"unsupported"`
	Budget        int               `json:"budget"`
	Cuts          int               `json:"cuts"`
	SolverFail    int               `json:"solver_fail"`
	Internal      int               `json:"internal"`
	PanicPaths    int               `json:"panic_paths"`
	Forks         int               `json:"forks"`
	Asserts       int               `json:"obligations"`
	Discharged    int               `json:"discharged"`
	NontrivialOK  int               `json:"distinct_nontrivial"`
	Queries       int               `json:"queries"`
	SolverSec     float64           `json:"solver_s"`
	UnknownFeas   int               `json:"unknown_feasibility"`
	IfConv        int               `json:"if_conversions"`
	Steps         int64             `json:"instructions"`
	Covers        map[string]int    `json:"covers"`
	Reasons       map[string]int    `json:"reasons"`
	Violations    []*Violation      `json:"violations"`
	Functions     []string          `json:"functions_encoded"`
	Samples       []string          `json:"samples"`
	WallSec       float64           `json:"wall_s"`
	Incomplete    bool              `json:"incomplete"`
	CrossChecked  int               `json:"solver_crosscheck"`
	Disagreements int               `json:"solver_disagreements"`
	InitFail      map[string]string `json:"init_incomplete,omitempty"`
	ForkHist      map[string]int    `json:"-"`
}

type ExploreOpts struct {
	Workers  int
	MaxPaths int
	Deadline time.Duration
	Verbose  bool
	// Grace > 0: exploration stops this long after the first violation that is not listed in Known ("site|class",
	// class "*" = any) - a violated property needs no exhaustive exploration. Never applies to twins.
	Grace time.Duration
	Known map[string]bool
}

// Explore runs the harness over all decision prefixes.
func Explore(prog *ssa.Program, hpkg *ssa.Package, cfg *Config, opts ExploreOpts) (*HarnessReport, error) {
	entry := hpkg.Func(cfg.Entry)
	if entry == nil {
		return nil, fmt.Errorf("harness entry %s not found in %s", cfg.Entry, hpkg.Pkg.Path())
	}
	rep := &HarnessReport{Entry: cfg.Entry, Covers: map[string]int{}, Reasons: map[string]int{}, InitFail: map[string]string{}}
	t0 := time.Now()
	var mu sync.Mutex
	cond := sync.NewCond(&mu)
	queue := [][]Decision{nil}
	active := 0
	stop := false
	funcs := map[string]bool{}
	seenViol := map[string]bool{}

	var wg sync.WaitGroup
	if opts.Deadline > 0 {
		// hard stop: half a minute after the deadline paths that are still running are ended as well
		c2 := *cfg
		c2.HardDeadline = t0.Add(opts.Deadline + 30*time.Second)
		cfg = &c2
	}
	var firstErr error
	var graceStart time.Time
	for i := 0; i < opts.Workers; i++ {
		wg.Add(1)
		go func(id int) {
			defer wg.Done()
			w, err := NewWorker(id, prog, hpkg, cfg)
			if err != nil {
				mu.Lock()
				firstErr = err
				stop = true
				cond.Broadcast()
				mu.Unlock()
				return
			}
			defer w.Close()
			for {
				mu.Lock()
				for len(queue) == 0 && active > 0 && !stop {
					cond.Wait()
				}
				if stop || (len(queue) == 0 && active == 0) {
					mu.Unlock()
					break
				}
				item := queue[len(queue)-1]
				queue = queue[:len(queue)-1]
				active++
				mu.Unlock()

				res := w.RunPath(entry, item, nil)
				for try := 0; try < 2 && res.End == "solver"; try++ {
					// transient solver failure (cancelled push, lost pipe under load): re-run this prefix
					w.solver.restart()
					res = w.RunPath(entry, item, nil)
				}

				mu.Lock()
				active--
				rep.Paths++
				rep.Forks += res.Forks
				for _, fs := range res.ForkSites {
					if rep.ForkHist == nil {
						rep.ForkHist = map[string]int{}
					}
					rep.ForkHist[fs]++
				}
				rep.Asserts += res.Asserts
				rep.Discharged += res.Discharged
				switch res.End {
				case "ok":
					rep.PathsOK++
					if res.Forks+len(item) > 0 && res.Asserts > 0 && len(res.Violations) == 0 {
						rep.NontrivialOK++
					}
				case "infeasible":
					rep.Infeasible++
				case "unsupported":
					rep.Unsupported++
					rep.Reasons["unsupported: "+res.Reason]++
				case "budget":
					rep.Budget++
					rep.Reasons["budget: "+res.Reason]++
				case "cut":
					rep.Cuts++
					rep.Reasons["cut: "+res.Reason]++
				case "solver":
					rep.SolverFail++
					rep.Reasons["solver: "+res.Reason]++
				case "panic":
					rep.PanicPaths++
				default:
					rep.Internal++
					rep.Reasons["internal: "+res.Reason]++
				}
				for _, c := range res.Covers {
					rep.Covers[c]++
				}
				for _, v := range res.Violations {
					key := v.Site + "|" + v.Class
					if !seenViol[key] {
						seenViol[key] = true
						rep.Violations = append(rep.Violations, v)
						if opts.Grace > 0 && graceStart.IsZero() && !strings.HasSuffix(cfg.Entry, "_twin") &&
							!opts.Known[key] && !opts.Known[v.Site+"|*"] && !opts.Known[v.Site+"|"] {
							graceStart = time.Now()
						}
					}
				}
				if len(rep.Samples) < 6 && res.Sample != "" {
					rep.Samples = append(rep.Samples, res.Sample)
				}
				queue = append(queue, res.NewWork...)
				if opts.MaxPaths > 0 && rep.Paths >= opts.MaxPaths {
					stop = true
					rep.Incomplete = true
				}
				if opts.Deadline > 0 && time.Since(t0) > opts.Deadline {
					stop = true
					rep.Incomplete = true
				}
				if !graceStart.IsZero() && time.Since(graceStart) > opts.Grace && !stop {
					stop = true
					rep.Incomplete = true
					rep.Reasons["stopped: grace period after the first new violation"]++
				}
				if opts.Verbose && rep.Paths%200 == 0 {
					fmt.Fprintf(os.Stderr, "  [%s] paths=%d queue=%d active=%d viol=%d\n", cfg.Entry, rep.Paths, len(queue), active, len(rep.Violations))
				}
				cond.Broadcast()
				mu.Unlock()
			}
			mu.Lock()
			rep.Queries += w.solver.Queries
			rep.SolverSec += w.solver.Time.Seconds()
			rep.UnknownFeas += w.stats.UnknownFeas
			rep.IfConv += w.stats.IfConv
			rep.Steps += w.stats.Steps
			rep.CrossChecked += w.solver.CrossCheck
			rep.Disagreements += w.solver.Disagree
			for f := range w.funcsSeen {
				funcs[f.String()] = true
			}
			for k, v := range w.initFail {
				rep.InitFail[k] = v
			}
			mu.Unlock()
		}(i)
	}
	wg.Wait()
	if firstErr != nil {
		return nil, firstErr
	}
	if len(queue) > 0 {
		rep.Incomplete = true
	}
	for f := range funcs {
		rep.Functions = append(rep.Functions, f)
	}
	sort.Strings(rep.Functions)
	rep.WallSec = time.Since(t0).Seconds()
	return rep, nil
}

// RunPinned executes the harness once with concrete nondet values.
func RunPinned(prog *ssa.Program, hpkg *ssa.Package, cfg *Config, values []string) (*PathResult, error) {
	entry := hpkg.Func(cfg.Entry)
	if entry == nil {
		return nil, fmt.Errorf("harness entry %s not found", cfg.Entry)
	}
	w, err := NewWorker(0, prog, hpkg, cfg)
	if err != nil {
		return nil, err
	}
	defer w.Close()
	if values == nil {
		values = []string{}
	}
	return w.RunPath(entry, nil, values), nil
}

// Job / Outcome mirror the native runtime's batch interface (differential validation, replay).
type Job struct {
	Entry  string         `json:"entry"`
	Values []string       `json:"values"`
	Seeded bool           `json:"seeded"`
	Seed   uint64         `json:"seed"`
	Params map[string]int `json:"params"`
}

type Outcome struct {
	End    string   `json:"end"`
	Fails  []string `json:"fails"`
	Obs    []string `json:"obs"`
	Covers []string `json:"covers"`
	Panic  string   `json:"panic,omitempty"`
	Reason string   `json:"reason,omitempty"`
}

func RunJobs(prog *ssa.Program, hpkg *ssa.Package, cfg *Config, jobs []Job) ([]Outcome, error) {
	c2 := *cfg
	w, err := NewWorker(0, prog, hpkg, &c2)
	if err != nil {
		return nil, err
	}
	defer w.Close()
	var outs []Outcome
	for _, j := range jobs {
		entry := hpkg.Func(j.Entry)
		if entry == nil {
			outs = append(outs, Outcome{End: "noentry"})
			continue
		}
		Params = map[string]int{}
		for k, v := range j.Params {
			Params[k] = v
		}
		c2.Entry = j.Entry
		vals := j.Values
		if vals == nil && !j.Seeded {
			vals = []string{}
		}
		if j.Seeded {
			vals = nil
		}
		res := w.RunPathSeeded(entry, nil, vals, j.Seeded, j.Seed)
		o := Outcome{Obs: res.Observed, Covers: res.Covers, Reason: res.Reason}
		for _, v := range res.Violations {
			if strings.HasPrefix(v.Site, "panic@") || strings.HasPrefix(v.Site, "fatal:") {
				o.Panic = v.Msg
			} else {
				o.Fails = append(o.Fails, v.Msg)
			}
		}
		switch {
		case res.End == "panic" || o.Panic != "":
			o.End = "panic"
		case len(o.Fails) > 0:
			o.End = "assert"
		case res.End == "infeasible":
			o.End = "assume"
		case res.End == "ok":
			if res.Reason == "vDone" || strings.HasPrefix(res.Reason, "cut") {
				o.End = "end"
			} else {
				o.End = "ok"
			}
		case res.End == "cut":
			o.End = "end"
		default:
			o.End = res.End
		}
		outs = append(outs, o)
	}
	return outs, nil
}

func nondetTerms(ns []NondetRec) []*Term {
	out := make([]*Term, len(ns))
	for i, n := range ns {
		out[i] = n.T
	}
	return out
}
