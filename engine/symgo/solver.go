package symgo

import (
	"bufio"
	"fmt"
	"io"
	"math"
	"math/big"
	"os"
	"os/exec"
	"strconv"
	"strings"
	"time"
)

// Solver drives one long-lived SMT solver process (z3 -in) with push/pop scopes.

type Result int

const (
	Unsat Result = iota
	Sat
	Unknown
	SolverError
)

func (r Result) String() string {
	return [...]string{"unsat", "sat", "unknown", "error"}[r]
}

type scope struct {
	named map[int]bool
	ufs   map[string]bool
}

type Solver struct {
	Bin       []string
	cmd       *exec.Cmd
	in        io.WriteCloser
	out       *bufio.Reader
	pr        *Printer
	tt        *TermTable
	scopes    []*scope
	TimeoutMs int

	// shadow solver for cross-checking (optional)
	shadow     *Solver
	Disagree   int
	CrossCheck int
	shadowRes  Result
	Retries    int

	Queries   int
	SatN      int
	UnsatN    int
	UnknownN  int
	ErrorN    int
	Time      time.Duration
	LastError string
	logw      io.Writer
	buf       strings.Builder
}

func NewSolver(tt *TermTable, intMode bool, timeoutMs int, bin []string) (*Solver, error) {
	s := &Solver{tt: tt, pr: &Printer{IntMode: intMode}, TimeoutMs: timeoutMs, Bin: bin}
	if err := s.start(); err != nil {
		return nil, err
	}
	return s, nil
}

func (s *Solver) SetLog(w io.Writer) { s.logw = w }

func (s *Solver) Bin0() string {
	if len(s.Bin) == 0 {
		return "z3"
	}
	return s.Bin[0]
}

func (s *Solver) start() error {
	bin := s.Bin
	if len(bin) == 0 {
		bin = []string{"z3", "-in", "-smt2"}
	}
	s.cmd = exec.Command(bin[0], bin[1:]...)
	in, err := s.cmd.StdinPipe()
	if err != nil {
		return err
	}
	out, err := s.cmd.StdoutPipe()
	if err != nil {
		return err
	}
	s.cmd.Stderr = os.Stderr
	if err := s.cmd.Start(); err != nil {
		return err
	}
	s.in = in
	s.out = bufio.NewReaderSize(out, 1<<16)
	s.scopes = []*scope{{named: map[int]bool{}, ufs: map[string]bool{}}}
	if strings.Contains(bin[0], "z3") {
		s.send(fmt.Sprintf("(set-option :timeout %d)", s.TimeoutMs))
	} else {
		s.send("(set-logic ALL)")
	}
	return nil
}

func (s *Solver) Close() {
	if s.in != nil {
		s.in.Close()
	}
	if s.cmd != nil && s.cmd.Process != nil {
		s.cmd.Process.Kill()
		s.cmd.Wait()
	}
	if s.shadow != nil {
		s.shadow.Close()
	}
}

func (s *Solver) send(line string) {
	if s.logw != nil {
		fmt.Fprintln(s.logw, line)
	}
	io.WriteString(s.in, line)
	io.WriteString(s.in, "\n")
	if s.shadow != nil {
		s.shadow.send(line)
	}
}

func (s *Solver) readLine() (string, error) {
	l, err := s.out.ReadString('\n')
	return strings.TrimSpace(l), err
}

func (s *Solver) Push() {
	s.send("(push 1)")
	s.scopes = append(s.scopes, &scope{named: map[int]bool{}, ufs: map[string]bool{}})
}

func (s *Solver) Pop() {
	s.send("(pop 1)")
	s.scopes = s.scopes[:len(s.scopes)-1]
}

func (s *Solver) Depth() int { return len(s.scopes) - 1 }

func (s *Solver) isNamed(id int) bool {
	for _, sc := range s.scopes {
		if sc.named[id] {
			return true
		}
	}
	return false
}

func (s *Solver) ufDeclared(n string) bool {
	for _, sc := range s.scopes {
		if sc.ufs[n] {
			return true
		}
	}
	return false
}

// name returns the SMT name of term t, emitting definitions as required.
func (s *Solver) name(t *Term) (string, error) {
	switch t.Op {
	case OConst:
		return s.pr.Expr(t, nil)
	case OVar:
		if !s.isNamed(t.id) {
			s.send("(declare-fun " + t.Name + " () " + s.pr.SortStr(t.Sort) + ")")
			if r := s.pr.VarRange(t); r != "" {
				s.send("(assert " + r + ")")
			}
			s.scopes[len(s.scopes)-1].named[t.id] = true
		}
		return t.Name, nil
	}
	nm := "t" + strconv.Itoa(t.id)
	if s.isNamed(t.id) {
		return nm, nil
	}
	if t.Op == OUF && !s.ufDeclared(t.Name) {
		sig := s.tt.ufs[t.Name]
		var sb strings.Builder
		sb.WriteString("(declare-fun " + t.Name + " (")
		for i, a := range sig.Args {
			if i > 0 {
				sb.WriteByte(' ')
			}
			sb.WriteString(s.pr.SortStr(a))
		}
		sb.WriteString(") " + s.pr.SortStr(sig.Res) + ")")
		s.send(sb.String())
		s.scopes[len(s.scopes)-1].ufs[t.Name] = true
	}
	var firstErr error
	argNames := make(map[*Term]string, len(t.Args))
	for _, a := range t.Args {
		n, err := s.name(a)
		if err != nil && firstErr == nil {
			firstErr = err
		}
		argNames[a] = n
	}
	if firstErr != nil {
		return "", firstErr
	}
	e, err := s.pr.Expr(t, func(a *Term) string { return argNames[a] })
	if err != nil {
		return "", err
	}
	s.send("(define-fun " + nm + " () " + s.pr.SortStr(t.Sort) + " " + e + ")")
	if t.Op == OUF && s.pr.IntMode && t.Sort.K == KBV {
		// integer encoding: the result of an uninterpreted function is a machine word too
		s.send("(assert (and (>= " + nm + " 0) (< " + nm + " " + pow2(t.Sort.W) + ")))")
	}
	s.scopes[len(s.scopes)-1].named[t.id] = true
	return nm, nil
}

// Assert adds t to the current scope. An encoding error is returned (the
// caller must treat the path as unsupported).
func (s *Solver) Assert(t *Term) error {
	if t.IsTrue() {
		return nil
	}
	n, err := s.name(t)
	if err != nil {
		return err
	}
	s.send("(assert " + n + ")")
	return nil
}

func (s *Solver) Check() Result {
	t0 := time.Now()
	// watchdog: z3 4.8.12 does not always honour its own :timeout (a query of the C18 thorough tier ran for 40
	// minutes in one tactic); past the soft limit plus the one retry the solver process is killed, which surfaces
	// as a solver failure (inconclusive), never as a verdict
	if cmd := s.cmd; cmd != nil && cmd.Process != nil && s.TimeoutMs > 0 {
		wd := time.AfterFunc(time.Duration(8*s.TimeoutMs)*time.Millisecond+20*time.Second, func() { cmd.Process.Kill() })
		defer wd.Stop()
	}
	s.send("(check-sat)\n(echo \"@@\")")
	r := s.readResult()
	if s.shadow != nil {
		s.shadowRes = s.shadow.readResult()
	}
	if r == Unknown && s.shadow == nil && strings.Contains(s.Bin0(), "z3") {
		// one retry with a longer limit: a loaded machine must not turn into an inconclusive run
		s.send(fmt.Sprintf("(set-option :timeout %d)", 6*s.TimeoutMs))
		s.send("(check-sat)\n(echo \"@@\")")
		r = s.readResult()
		s.send(fmt.Sprintf("(set-option :timeout %d)", s.TimeoutMs))
		s.Retries++
	}
	s.Queries++
	s.Time += time.Since(t0)
	switch r {
	case Sat:
		s.SatN++
	case Unsat:
		s.UnsatN++
	case Unknown:
		s.UnknownN++
	default:
		s.ErrorN++
	}
	if s.shadow != nil {
		r2 := s.shadowRes
		s.CrossCheck++
		if (r == Sat && r2 == Unsat) || (r == Unsat && r2 == Sat) {
			s.Disagree++
			s.LastError = fmt.Sprintf("solver disagreement: primary=%v shadow=%v", r, r2)
			return SolverError
		}
	}
	return r
}

func (s *Solver) readResult() Result {
	res := SolverError
	got := false
	sawErr := false
	for {
		l, err := s.readLine()
		if err != nil {
			s.LastError = "solver pipe: " + err.Error()
			s.restart()
			return SolverError
		}
		l = strings.Trim(l, "\"")
		switch {
		case l == "@@":
			if sawErr || !got {
				if !sawErr {
					s.LastError = "no answer from solver"
				}
				return SolverError
			}
			return res
		case l == "sat":
			res, got = Sat, true
		case l == "unsat":
			res, got = Unsat, true
		case l == "unknown" || l == "timeout":
			res, got = Unknown, true
		case strings.HasPrefix(l, "(error"):
			s.LastError = l
			sawErr = true
		case l == "" || l == "success":
		default:
			if !sawErr {
				s.LastError = "unexpected solver output: " + l
			}
			sawErr = true
		}
	}
}

func (s *Solver) restart() {
	if s.cmd != nil && s.cmd.Process != nil {
		s.cmd.Process.Kill()
		s.cmd.Wait()
	}
	depth := len(s.scopes) - 1
	s.start()
	for i := 0; i < depth; i++ {
		s.Push()
	}
}

// CheckWith checks satisfiability of the current assertions plus extra.
func (s *Solver) CheckWith(extra ...*Term) Result {
	s.Push()
	for _, e := range extra {
		if err := s.Assert(e); err != nil {
			s.LastError = err.Error()
			s.Pop()
			s.ErrorN++
			return SolverError
		}
	}
	r := s.Check()
	s.Pop()
	return r
}

// ModelValue is a concrete value read back from the solver.
type ModelValue struct {
	Sort Sort
	U    uint64
	F    float64
}

// GetValues must be called right after a Check that returned Sat (same scope).
func (s *Solver) GetValues(ts []*Term) ([]ModelValue, error) {
	if len(ts) == 0 {
		return nil, nil
	}
	names := make([]string, len(ts))
	for i, t := range ts {
		n, err := s.name(t)
		if err != nil {
			return nil, err
		}
		names[i] = n
	}
	// naming may have emitted definitions after check-sat; z3 needs a fresh check
	t0 := time.Now()
	s.send("(check-sat)\n(echo \"@@\")")
	if r := s.readResultQuiet(); r != Sat {
		return nil, fmt.Errorf("model re-check returned %v", r)
	}
	if s.shadow != nil {
		s.shadow.readResultQuiet()
	}
	s.send("(get-value (" + strings.Join(names, " ") + "))\n(echo \"@@\")")
	txt, err := s.readSexp()
	if s.shadow != nil {
		s.shadow.readSexp()
	}
	s.Time += time.Since(t0)
	if err != nil {
		return nil, err
	}
	sx, err := parseSexp(txt)
	if err != nil {
		return nil, fmt.Errorf("model parse: %v in %q", err, txt)
	}
	if len(sx.list) != len(ts) {
		return nil, fmt.Errorf("model: expected %d values, got %d: %s", len(ts), len(sx.list), txt)
	}
	out := make([]ModelValue, len(ts))
	for i, pair := range sx.list {
		if len(pair.list) != 2 {
			return nil, fmt.Errorf("model: bad pair %s", txt)
		}
		mv, err := s.parseValue(pair.list[1], ts[i].Sort)
		if err != nil {
			return nil, err
		}
		out[i] = mv
	}
	return out, nil
}

func (s *Solver) readResultQuiet() Result {
	return s.readResult()
}

func (s *Solver) readSexp() (string, error) {
	var sb strings.Builder
	for {
		l, err := s.out.ReadString('\n')
		if err != nil {
			return "", err
		}
		if t := strings.Trim(strings.TrimSpace(l), "\""); t == "@@" {
			break
		}
		sb.WriteString(l)
	}
	r := strings.TrimSpace(sb.String())
	if strings.Contains(r, "(error") {
		return "", fmt.Errorf("solver: %s", r)
	}
	return r, nil
}

type sexp struct {
	atom string
	list []*sexp
	isL  bool
}

func parseSexp(s string) (*sexp, error) {
	pos := 0
	var rec func() (*sexp, error)
	skip := func() {
		for pos < len(s) && (s[pos] == ' ' || s[pos] == '\n' || s[pos] == '\t' || s[pos] == '\r') {
			pos++
		}
	}
	rec = func() (*sexp, error) {
		skip()
		if pos >= len(s) {
			return nil, fmt.Errorf("eof")
		}
		if s[pos] == '(' {
			pos++
			n := &sexp{isL: true}
			for {
				skip()
				if pos >= len(s) {
					return nil, fmt.Errorf("eof in list")
				}
				if s[pos] == ')' {
					pos++
					return n, nil
				}
				c, err := rec()
				if err != nil {
					return nil, err
				}
				n.list = append(n.list, c)
			}
		}
		st := pos
		if s[pos] == '|' {
			pos++
			for pos < len(s) && s[pos] != '|' {
				pos++
			}
			pos++
			return &sexp{atom: s[st:pos]}, nil
		}
		for pos < len(s) && !strings.ContainsRune(" \n\t\r()", rune(s[pos])) {
			pos++
		}
		return &sexp{atom: s[st:pos]}, nil
	}
	return rec()
}

func (sx *sexp) String() string {
	if !sx.isL {
		return sx.atom
	}
	parts := make([]string, len(sx.list))
	for i, c := range sx.list {
		parts[i] = c.String()
	}
	return "(" + strings.Join(parts, " ") + ")"
}

func parseBVLit(a string) (uint64, int, bool) {
	if strings.HasPrefix(a, "#x") {
		v, err := strconv.ParseUint(a[2:], 16, 64)
		return v, 4 * (len(a) - 2), err == nil
	}
	if strings.HasPrefix(a, "#b") {
		v, err := strconv.ParseUint(a[2:], 2, 64)
		return v, len(a) - 2, err == nil
	}
	return 0, 0, false
}

func (s *Solver) parseValue(v *sexp, so Sort) (ModelValue, error) {
	mv := ModelValue{Sort: so}
	switch so.K {
	case KBool:
		switch v.atom {
		case "true":
			mv.U = 1
			return mv, nil
		case "false":
			return mv, nil
		}
	case KBV:
		if s.pr.IntMode {
			n, ok := parseIntSexp(v)
			if ok {
				m := new(big.Int).Lsh(big.NewInt(1), uint(so.W))
				n.Mod(n, m)
				mv.U = n.Uint64()
				return mv, nil
			}
		} else if !v.isL {
			if u, _, ok := parseBVLit(v.atom); ok {
				mv.U = u
				return mv, nil
			}
		} else if len(v.list) == 3 && v.list[0].atom == "_" && strings.HasPrefix(v.list[1].atom, "bv") {
			u, err := strconv.ParseUint(v.list[1].atom[2:], 10, 64)
			if err == nil {
				mv.U = u
				return mv, nil
			}
		}
	case KFP:
		if v.isL && len(v.list) == 4 && v.list[0].atom == "fp" {
			sg, _, ok1 := parseBVLit(v.list[1].atom)
			ex, ew, ok2 := parseBVLit(v.list[2].atom)
			mt, mw, ok3 := parseBVLit(v.list[3].atom)
			if ok1 && ok2 && ok3 {
				if ew == 11 && mw == 52 {
					mv.F = math.Float64frombits(sg<<63 | ex<<52 | mt)
					return mv, nil
				}
				if ew == 8 && mw == 23 {
					mv.F = float64(math.Float32frombits(uint32(sg<<31 | ex<<23 | mt)))
					return mv, nil
				}
			}
		}
		if v.isL && len(v.list) == 4 && v.list[0].atom == "_" {
			switch v.list[1].atom {
			case "+zero":
				mv.F = 0
				return mv, nil
			case "-zero":
				mv.F = math.Copysign(0, -1)
				return mv, nil
			case "+oo":
				mv.F = math.Inf(1)
				return mv, nil
			case "-oo":
				mv.F = math.Inf(-1)
				return mv, nil
			case "NaN":
				mv.F = math.NaN()
				return mv, nil
			}
		}
	}
	return mv, fmt.Errorf("cannot parse model value %s of sort %v", v.String(), so)
}

func parseIntSexp(v *sexp) (*big.Int, bool) {
	if !v.isL {
		n, ok := new(big.Int).SetString(v.atom, 10)
		return n, ok
	}
	if len(v.list) == 2 && v.list[0].atom == "-" {
		n, ok := parseIntSexp(v.list[1])
		if ok {
			return n.Neg(n), true
		}
	}
	return nil, false
}
