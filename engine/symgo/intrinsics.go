package symgo

import (
	"fmt"
	"go/token"
	"go/types"
	"math"
	"regexp"
	"strconv"
	"strings"

	"golang.org/x/tools/go/ssa"
)

// Engine-level models of runtime / stdlib leaves whose Go bodies are assembly,
// unsafe tricks or reflection.

var intrinsics map[string]extFn

func (w *Worker) bv64(v int64) *Term { return w.tt.BVC(64, uint64(v)) }

func init() {
	intrinsics = map[string]extFn{
		// --- bytes / strings leaves ---
		"internal/bytealg.IndexByte":       extIndexByteSlice,
		"internal/bytealg.IndexByteString": extIndexByteString,
		"internal/bytealg.CountString":     extCountString,
		"internal/bytealg.Count":           extCountSlice,
		"internal/bytealg.IndexString":     extIndexString,
		"internal/bytealg.Index":           extIndexSlice,
		"internal/bytealg.Equal":           extBytesEqual,
		"internal/bytealg.Compare":         extBytesCompare,
		"internal/bytealg.MakeNoZero":      extMakeNoZero,
		"bytes.Equal":                      extBytesEqual,
		"bytes.Compare":                    extBytesCompare,
		"bytes.IndexByte":                  extIndexByteSlice,
		"strings.IndexByte":                extIndexByteString,
		"strings.Index":                    extIndexString,
		"bytes.Index":                      extIndexSlice,
		"strings.Compare":                  extStringsCompare,
		"internal/stringslite.Index":       extIndexString,
		"internal/stringslite.IndexByte":   extIndexByteString,
		"(*strings.Builder).String":        extBuilderString,
		"(*strings.Builder).copyCheck":     extNoop,
		"strings.Clone":                    func(fr *frame, a []Value) Value { return a[0] },
		"internal/stringslite.Clone":       func(fr *frame, a []Value) Value { return a[0] },
		"internal/abi.NoEscape":            func(fr *frame, a []Value) Value { return a[0] },
		"internal/abi.Escape":              func(fr *frame, a []Value) Value { return a[0] },

		// --- math ---
		"math.Float64bits":     extFloat64bits,
		"math.Float64frombits": extFloat64frombits,
		"math.Float32bits":     extFloat32bits,
		"math.Float32frombits": extFloat32frombits,
		"math.Floor":           extMathUnary(math.Floor),
		"math.Ceil":            extMathUnary(math.Ceil),
		"math.Trunc":           extMathUnary(math.Trunc),
		"math.Sqrt":            extMathUnary(math.Sqrt),
		"math.Log":             extMathUnary(math.Log),
		"math.Exp":             extMathUnary(math.Exp),
		"math.Log2":            extMathUnary(math.Log2),
		"math.Abs":             extMathAbs,
		"math.Pow":             extMathPow,

		// --- runtime ---
		"runtime.SetFinalizer": extNoop,
		"runtime.KeepAlive":    extNoop,
		"runtime.Gosched":      func(fr *frame, a []Value) Value { fr.p.yield("Gosched"); return nil },
		"runtime.GC":           extNoop,
		"runtime.GOMAXPROCS":   func(fr *frame, a []Value) Value { return fr.w.bv64(4) },
		"runtime.NumCPU":       func(fr *frame, a []Value) Value { return fr.w.bv64(4) },
		"runtime.Caller": func(fr *frame, a []Value) Value {
			return Tuple{fr.w.tt.BVC(64, 0), Str{S: "?"}, fr.w.bv64(0), fr.w.tt.False}
		},
		"runtime.Callers":     func(fr *frame, a []Value) Value { return fr.w.bv64(0) },
		"runtime/debug.Stack": func(fr *frame, a []Value) Value { return Slice{} },
		"os.Getenv":           func(fr *frame, a []Value) Value { return Str{} },
		"os.LookupEnv":        func(fr *frame, a []Value) Value { return Tuple{Str{}, fr.w.tt.False} },
		"syscall.Getenv":      func(fr *frame, a []Value) Value { return Tuple{Str{}, fr.w.tt.False} },
		"internal/godebug.New": func(fr *frame, a []Value) Value {
			return fr.w.newObject(fr.fn.Signature.Results().At(0).Type())
		},
		"(*internal/godebug.Setting).Value":         func(fr *frame, a []Value) Value { return Str{} },
		"(*internal/godebug.Setting).IncNonDefault": extNoop,
		"(*internal/godebug.Setting).Name":          func(fr *frame, a []Value) Value { return Str{S: "x"} },
		"internal/race.Acquire":                     extNoop,
		"internal/race.Release":                     extNoop,
		"internal/race.ReleaseMerge":                extNoop,
		"internal/race.Read":                        extNoop,
		"internal/race.Write":                       extNoop,
		"internal/race.ReadRange":                   extNoop,
		"internal/race.WriteRange":                  extNoop,
		"internal/race.Enable":                      extNoop,
		"internal/race.Disable":                     extNoop,

		// --- errors ---
		"errors.Is": extErrorsIs,
		"errors.As": extErrorsAs,

		// --- fmt ---
		"fmt.Sprintf":  extSprintf,
		"fmt.Errorf":   extErrorf,
		"fmt.Sprint":   extSprint,
		"fmt.Sprintln": extSprintln,
		"fmt.Fprintf":  func(fr *frame, a []Value) Value { return Tuple{fr.w.bv64(0), Iface{}} },
		"fmt.Fprintln": func(fr *frame, a []Value) Value { return Tuple{fr.w.bv64(0), Iface{}} },
		"fmt.Fprint":   func(fr *frame, a []Value) Value { return Tuple{fr.w.bv64(0), Iface{}} },
		"fmt.Printf":   func(fr *frame, a []Value) Value { return Tuple{fr.w.bv64(0), Iface{}} },
		"fmt.Println":  func(fr *frame, a []Value) Value { return Tuple{fr.w.bv64(0), Iface{}} },
		"fmt.Print":    func(fr *frame, a []Value) Value { return Tuple{fr.w.bv64(0), Iface{}} },

		// --- sort ---
		"sort.Slice":         extSortSlice,
		"sort.SliceStable":   extSortSlice,
		"sort.SliceIsSorted": extSliceIsSorted,

		// --- sync ---
		"(*sync.Mutex).Lock":      extMutexLock,
		"(*sync.Mutex).Unlock":    extMutexUnlock,
		"(*sync.Mutex).TryLock":   extMutexTryLock,
		"(*sync.RWMutex).Lock":    extRWLock,
		"(*sync.RWMutex).Unlock":  extRWUnlock,
		"(*sync.RWMutex).RLock":   extRWRLock,
		"(*sync.RWMutex).RUnlock": extRWRUnlock,
		"(*sync.RWMutex).TryLock": extRWTryLock,
		"(*sync.WaitGroup).Add":   extWGAdd,
		"(*sync.WaitGroup).Done":  func(fr *frame, a []Value) Value { return extWGAdd(fr, []Value{a[0], fr.w.bv64(-1)}) },
		"(*sync.WaitGroup).Wait":  extWGWait,
		"(*sync.Pool).Get":        extPoolGet,
		"(*sync.Pool).Put":        extNoop,
		"(*sync.Once).Do":         extOnceDo,

		"(*sync/atomic.Value).Load":  extAtomicValueLoad,
		"(*sync/atomic.Value).Store": extAtomicValueStore,

		// --- time ---
		"time.Now":         extTimeNow,
		"time.Sleep":       func(fr *frame, a []Value) Value { fr.p.yield("Sleep"); return nil },
		"time.runtimeNano": func(fr *frame, a []Value) Value { return fr.w.bv64(0) },
		"time.now": func(fr *frame, a []Value) Value {
			fr.p.unsupported("time.now (use time.Now model)")
			return nil
		},
		"(*time.Location).get": func(fr *frame, a []Value) Value {
			// all locations behave as UTC (documented model limitation)
			return fr.w.globalAddr(fr.w.prog.ImportedPackage("time").Var("utcLoc"))
		},

		// --- reflect (tiny subset) ---
		"reflect.TypeOf": func(fr *frame, a []Value) Value {
			fr.p.unsupported("reflect.TypeOf")
			return nil
		},

		// --- crypto / random ---
		"crypto/rand.Read": func(fr *frame, a []Value) Value {
			b := a[0].(Slice)
			for i := range b {
				b[i] = fr.p.nondet("rand", BV(8), "rand")
			}
			return Tuple{fr.w.bv64(int64(len(b))), Iface{}}
		},
	}
	for _, ty := range []struct {
		n string
		w int
	}{{"Int32", 32}, {"Uint32", 32}, {"Int64", 64}, {"Uint64", 64}, {"Uintptr", 64}} {
		wd := ty.w
		_ = wd
		intrinsics["sync/atomic.Load"+ty.n] = extAtomicLoad
		intrinsics["sync/atomic.Store"+ty.n] = extAtomicStore
		intrinsics["sync/atomic.Add"+ty.n] = extAtomicAdd
		intrinsics["sync/atomic.Swap"+ty.n] = extAtomicSwap
		intrinsics["sync/atomic.CompareAndSwap"+ty.n] = extAtomicCAS
		intrinsics["sync/atomic.And"+ty.n] = extAtomicAnd
		intrinsics["sync/atomic.Or"+ty.n] = extAtomicOr
	}
	intrinsics["sync/atomic.LoadPointer"] = extAtomicLoad
	intrinsics["sync/atomic.StorePointer"] = extAtomicStore
	intrinsics["sync/atomic.SwapPointer"] = extAtomicSwap
	intrinsics["sync/atomic.CompareAndSwapPointer"] = extAtomicCASPtr
}

func extNoop(fr *frame, a []Value) Value { return nil }

// newObject allocates a zero value of the pointee of pointer type pt.
func (w *Worker) newObject(pt types.Type) *Value {
	v := w.zero(deref(pt))
	return &v
}

// ---------------------------------------------------------------------------
// bytes/strings

func sliceBytes(s Slice) []*Term {
	out := make([]*Term, len(s))
	for i, v := range s {
		out[i] = v.(*Term)
	}
	return out
}

func (p *Path) indexByte(bs []*Term, c *Term) Value {
	tt := p.w.tt
	for i, b := range bs {
		if p.branch(tt.Eq(b, c)) {
			return p.w.bv64(int64(i))
		}
	}
	return p.w.bv64(-1)
}

func extIndexByteSlice(fr *frame, a []Value) Value {
	return fr.p.indexByte(sliceBytes(a[0].(Slice)), a[1].(*Term))
}

func extIndexByteString(fr *frame, a []Value) Value {
	s := a[0].(Str)
	c := a[1].(*Term)
	if s.B == nil && c.IsConst() {
		return fr.w.bv64(int64(strings.IndexByte(s.S, byte(c.C))))
	}
	return fr.p.indexByte(fr.w.strBytes(s), c)
}

func (p *Path) countByte(bs []*Term, c *Term) Value {
	tt := p.w.tt
	n := tt.BVC(64, 0)
	for _, b := range bs {
		n = tt.Add(n, tt.Ite(tt.Eq(b, c), tt.BVC(64, 1), tt.BVC(64, 0)))
	}
	return n
}

func extCountString(fr *frame, a []Value) Value {
	return fr.p.countByte(fr.w.strBytes(a[0].(Str)), a[1].(*Term))
}

func extCountSlice(fr *frame, a []Value) Value {
	return fr.p.countByte(sliceBytes(a[0].(Slice)), a[1].(*Term))
}

func (p *Path) indexSub(s, sub []*Term) Value {
	tt := p.w.tt
	n, m := len(s), len(sub)
	if m == 0 {
		return p.w.bv64(0)
	}
	for i := 0; i+m <= n; i++ {
		cs := make([]*Term, m)
		for k := 0; k < m; k++ {
			cs[k] = tt.Eq(s[i+k], sub[k])
		}
		if p.branch(tt.And(cs...)) {
			return p.w.bv64(int64(i))
		}
	}
	return p.w.bv64(-1)
}

func extIndexString(fr *frame, a []Value) Value {
	s, sub := a[0].(Str), a[1].(Str)
	if s.B == nil && sub.B == nil {
		return fr.w.bv64(int64(strings.Index(s.S, sub.S)))
	}
	return fr.p.indexSub(fr.w.strBytes(s), fr.w.strBytes(sub))
}

func extIndexSlice(fr *frame, a []Value) Value {
	return fr.p.indexSub(sliceBytes(a[0].(Slice)), sliceBytes(a[1].(Slice)))
}

func extBytesEqual(fr *frame, a []Value) Value {
	x, y := sliceBytes(a[0].(Slice)), sliceBytes(a[1].(Slice))
	return fr.w.strEq(Str{B: x}, Str{B: y})
}

func (p *Path) compareBytes(x, y Str) Value {
	lt := p.w.strLess(x, y, false)
	eq := p.w.strEq(x, y)
	tt := p.w.tt
	return tt.Ite(lt, p.w.bv64(-1), tt.Ite(eq, p.w.bv64(0), p.w.bv64(1)))
}

func extBytesCompare(fr *frame, a []Value) Value {
	x, y := sliceBytes(a[0].(Slice)), sliceBytes(a[1].(Slice))
	return fr.p.compareBytes(Str{B: x}, Str{B: y})
}

func extStringsCompare(fr *frame, a []Value) Value {
	return fr.p.compareBytes(a[0].(Str), a[1].(Str))
}

func extMakeNoZero(fr *frame, a []Value) Value {
	n := int(fr.p.concInt(a[0].(*Term)))
	out := make(Slice, n)
	for i := range out {
		out[i] = fr.w.tt.BVC(8, 0)
	}
	return out
}

func extBuilderString(fr *frame, a []Value) Value {
	b := (*a[0].(*Value)).(Struct)
	buf := b[1].(Slice)
	if len(buf) == 0 {
		return Str{}
	}
	return mkStr(sliceBytes(buf))
}

// ---------------------------------------------------------------------------
// math

func extFloat64bits(fr *frame, a []Value) Value {
	t := a[0].(*Term)
	if t.IsConst() {
		return fr.w.tt.BVC(64, math.Float64bits(t.F))
	}
	// bits of a symbolic double: fresh BV constrained via to_fp
	v := fr.p.nondet("f64bits", BV(64), "internal")
	fr.p.unsupported("math.Float64bits of symbolic value")
	return v
}

func extFloat64frombits(fr *frame, a []Value) Value {
	t := a[0].(*Term)
	if t.IsConst() {
		return fr.w.tt.FPC(64, math.Float64frombits(t.C))
	}
	fr.p.unsupported("math.Float64frombits of symbolic value")
	return nil
}

func extFloat32bits(fr *frame, a []Value) Value {
	t := a[0].(*Term)
	if t.IsConst() {
		return fr.w.tt.BVC(32, uint64(math.Float32bits(float32(t.F))))
	}
	fr.p.unsupported("math.Float32bits of symbolic value")
	return nil
}

func extFloat32frombits(fr *frame, a []Value) Value {
	t := a[0].(*Term)
	if t.IsConst() {
		return fr.w.tt.FPC(32, float64(math.Float32frombits(uint32(t.C))))
	}
	fr.p.unsupported("math.Float32frombits of symbolic value")
	return nil
}

func extMathUnary(f func(float64) float64) extFn {
	return func(fr *frame, a []Value) Value {
		t := a[0].(*Term)
		if t.IsConst() {
			return fr.w.tt.FPC(64, f(t.F))
		}
		fr.p.unsupported("math function of symbolic value")
		return nil
	}
}

func extMathAbs(fr *frame, a []Value) Value {
	t := a[0].(*Term)
	tt := fr.w.tt
	if t.IsConst() {
		return tt.FPC(64, math.Abs(t.F))
	}
	return tt.Ite(tt.FPCmp(OFPLt, t, tt.FPC(64, 0)), tt.FPNeg(t), t)
}

func extMathPow(fr *frame, a []Value) Value {
	x, y := a[0].(*Term), a[1].(*Term)
	if x.IsConst() && y.IsConst() {
		return fr.w.tt.FPC(64, math.Pow(x.F, y.F))
	}
	fr.p.unsupported("math.Pow of symbolic value")
	return nil
}

// ---------------------------------------------------------------------------
// errors.Is / errors.As (walk the chain, interpreting Is/As/Unwrap methods)

func (w *Worker) findMethod(t types.Type, name string) *ssa.Function {
	ms := w.prog.MethodSets.MethodSet(t)
	for i := 0; i < ms.Len(); i++ {
		sel := ms.At(i)
		if sel.Obj().Name() == name {
			return w.prog.MethodValue(sel)
		}
	}
	return nil
}

func (w *Worker) callMethod(fr *frame, recv Iface, name string, args ...Value) (Value, bool) {
	if recv.T == nil {
		return nil, false
	}
	m := w.findMethod(recv.T, name)
	if m == nil {
		return nil, false
	}
	return w.call(fr, token.NoPos, m, append([]Value{recv.V}, args...)), true
}

func extErrorsIs(fr *frame, a []Value) Value {
	w := fr.w
	err, target := a[0].(Iface), a[1].(Iface)
	if err.T == nil || target.T == nil {
		return w.tt.BoolC(err.T == nil && target.T == nil)
	}
	return w.tt.BoolC(fr.errorsIs(err, target, 0))
}

func (fr *frame) errorsIs(err, target Iface, depth int) bool {
	w := fr.w
	if depth > 64 {
		fr.p.abort(abortBudget, "errors.Is: chain too deep")
	}
	for {
		if err.T == nil {
			return false
		}
		if types.Comparable(target.T) && types.Identical(err.T, target.T) {
			if fr.p.branch(w.equals(err.T, err.V, target.V)) {
				return true
			}
		}
		if m := w.findMethod(err.T, "Is"); m != nil && isBoolMethod(m, 1) {
			r := w.call(fr, token.NoPos, m, []Value{err.V, target})
			if fr.p.branch(r.(*Term)) {
				return true
			}
		}
		m := w.findMethod(err.T, "Unwrap")
		if m == nil {
			return false
		}
		res := m.Signature.Results()
		if res.Len() != 1 {
			return false
		}
		r := w.call(fr, token.NoPos, m, []Value{err.V})
		switch r := r.(type) {
		case Iface:
			err = r
		case Slice:
			for _, e := range r {
				if ei := e.(Iface); ei.T != nil && fr.errorsIs(ei, target, depth+1) {
					return true
				}
			}
			return false
		default:
			return false
		}
	}
}

func isBoolMethod(m *ssa.Function, nparams int) bool {
	sig := m.Signature
	if sig.Params().Len() != nparams || sig.Results().Len() != 1 {
		return false
	}
	b, ok := sig.Results().At(0).Type().Underlying().(*types.Basic)
	return ok && b.Kind() == types.Bool
}

func extErrorsAs(fr *frame, a []Value) Value {
	w := fr.w
	err, target := a[0].(Iface), a[1].(Iface)
	if err.T == nil {
		return w.tt.False
	}
	if target.T == nil {
		panic(targetPanic{v: Iface{T: w.errorStringT, V: w.mkErrorString("errors: target cannot be nil")}})
	}
	pt, ok := target.T.Underlying().(*types.Pointer)
	if !ok {
		panic(targetPanic{v: Iface{T: w.errorStringT, V: w.mkErrorString("errors: target must be a non-nil pointer")}})
	}
	return w.tt.BoolC(fr.errorsAs(err, target, pt.Elem(), 0))
}

func (fr *frame) errorsAs(err, target Iface, tt types.Type, depth int) bool {
	w := fr.w
	if depth > 64 {
		fr.p.abort(abortBudget, "errors.As: chain too deep")
	}
	for {
		if err.T == nil {
			return false
		}
		if types.AssignableTo(err.T, tt) {
			cell := target.V.(*Value)
			if _, isI := tt.Underlying().(*types.Interface); isI {
				store(tt, cell, err)
			} else {
				store(tt, cell, err.V)
			}
			return true
		}
		if m := w.findMethod(err.T, "As"); m != nil && isBoolMethod(m, 1) {
			r := w.call(fr, token.NoPos, m, []Value{err.V, target})
			if fr.p.branch(r.(*Term)) {
				return true
			}
		}
		m := w.findMethod(err.T, "Unwrap")
		if m == nil || m.Signature.Results().Len() != 1 {
			return false
		}
		r := w.call(fr, token.NoPos, m, []Value{err.V})
		switch r := r.(type) {
		case Iface:
			err = r
		case Slice:
			for _, e := range r {
				if ei := e.(Iface); ei.T != nil && fr.errorsAs(ei, target, tt, depth+1) {
					return true
				}
			}
			return false
		default:
			return false
		}
	}
}

// mkErrorString builds a *errors.errorString value (V of Iface with T=errorStringT).
func (w *Worker) mkErrorString(msg string) Value {
	var v Value = Struct{Str{S: msg}}
	return &v
}

func (w *Worker) newError(s Str) Iface {
	var v Value = Struct{s}
	return Iface{T: w.errorStringT, V: &v}
}

// ---------------------------------------------------------------------------
// fmt

var verbRe = regexp.MustCompile(`%[-+# 0]*[0-9*]*(\.[0-9*]+)?[a-zA-Z%]`)

// valueToStr renders v per verb; symbolic strings stay symbolic.
func (fr *frame) valueToStr(v Value, verb byte) Str {
	w := fr.w
	switch v := v.(type) {
	case Iface:
		if v.T == nil {
			if verb == 's' || verb == 'v' {
				return Str{S: "<nil>"}
			}
			return Str{S: "%!" + string(verb) + "(<nil>)"}
		}
		if verb == 'T' {
			return Str{S: types.TypeString(v.T, func(p *types.Package) string { return p.Name() })}
		}
		if verb != 'd' && verb != 'x' && verb != 'c' && verb != 'p' && verb != 't' {
			// error / Stringer
			if pv, ok := v.V.(*Value); !ok || pv != nil {
				if m := w.findMethod(v.T, "Error"); m != nil && m.Signature.Params().Len() == 0 {
					r := w.call(fr, token.NoPos, m, []Value{v.V})
					if s, ok := r.(Str); ok {
						if verb == 'q' {
							return w.quoteStr(s)
						}
						return s
					}
				} else if m := w.findMethod(v.T, "String"); m != nil && m.Signature.Params().Len() == 0 && m.Signature.Results().Len() == 1 {
					r := w.call(fr, token.NoPos, m, []Value{v.V})
					if s, ok := r.(Str); ok {
						if verb == 'q' {
							return w.quoteStr(s)
						}
						return s
					}
				}
			} else if verb == 'v' || verb == 's' {
				return Str{S: "<nil>"}
			}
		}
		return fr.basicToStr(v.T, v.V, verb)
	}
	return Str{S: fmt.Sprintf("%%!%c(?)", verb)}
}

func (w *Worker) quoteStr(s Str) Str {
	if s.IsConc() {
		return Str{S: strconv.Quote(s.Conc())}
	}
	return w.strConcat(w.strConcat(Str{S: `"`}, s), Str{S: `"`})
}

func (fr *frame) basicToStr(t types.Type, v Value, verb byte) Str {
	w := fr.w
	switch x := v.(type) {
	case Str:
		if verb == 'q' {
			return w.quoteStr(x)
		}
		if verb == 'x' && x.IsConc() {
			return Str{S: fmt.Sprintf("%x", x.Conc())}
		}
		return x
	case *Term:
		if x.IsConst() {
			switch x.Sort.K {
			case KBool:
				return Str{S: fmt.Sprint(x.C == 1)}
			case KFP:
				return Str{S: fmt.Sprintf("%"+string(verb), x.F)}
			case KBV:
				f := "%" + string(verb)
				if verb == 'v' || verb == 's' {
					f = "%d"
				}
				if isSigned(t) {
					return Str{S: fmt.Sprintf(f, sext(x.C, x.Sort.W))}
				}
				return Str{S: fmt.Sprintf(f, x.C)}
			}
		}
		return Str{S: "<sym>"}
	case Slice:
		if b, ok := t.Underlying().(*types.Slice); ok {
			if e, ok := b.Elem().Underlying().(*types.Basic); ok && e.Kind() == types.Uint8 && (verb == 's' || verb == 'x' || verb == 'q') {
				s := mkStr(sliceBytes(x))
				if verb == 'x' && s.IsConc() {
					return Str{S: fmt.Sprintf("%x", s.Conc())}
				}
				if verb == 'q' {
					return w.quoteStr(s)
				}
				return s
			}
			parts := Str{S: "["}
			for i, e := range x {
				if i > 0 {
					parts = w.strConcat(parts, Str{S: " "})
				}
				parts = w.strConcat(parts, fr.valueToStr(w.toIface(b.Elem(), e), verb))
			}
			return w.strConcat(parts, Str{S: "]"})
		}
	case *Value:
		if x == nil {
			return Str{S: "<nil>"}
		}
		return Str{S: "0xc000000000"}
	case Struct, Array, *Map:
		return Str{S: "{…}"}
	}
	return Str{S: fmt.Sprintf("%%!%c(%T)", verb, v)}
}

func (w *Worker) toIface(t types.Type, v Value) Iface {
	if _, ok := t.Underlying().(*types.Interface); ok {
		return v.(Iface)
	}
	return Iface{T: t, V: v}
}

// format implements Sprintf; returns the string and the %w-wrapped errors.
func (fr *frame) format(f Str, args Slice) (Str, []Iface) {
	w := fr.w
	if !f.IsConc() {
		fr.p.unsupported("fmt: symbolic format string")
	}
	fs := f.Conc()
	var wrapped []Iface
	res := Str{}
	ai := 0
	last := 0
	for _, loc := range verbRe.FindAllStringIndex(fs, -1) {
		res = w.strConcat(res, Str{S: fs[last:loc[0]]})
		last = loc[1]
		spec := fs[loc[0]:loc[1]]
		verb := spec[len(spec)-1]
		if verb == '%' {
			res = w.strConcat(res, Str{S: "%"})
			continue
		}
		if strings.Contains(spec, "*") {
			ai++ // width argument
		}
		if ai >= len(args) {
			res = w.strConcat(res, Str{S: "%!" + string(verb) + "(MISSING)"})
			continue
		}
		arg := args[ai].(Iface)
		ai++
		if verb == 'w' {
			wrapped = append(wrapped, arg)
			verb = 'v'
		}
		s := fr.valueToStr(arg, verb)
		if len(spec) > 2 && s.IsConc() && arg.T != nil {
			// honour width/flags for concrete scalars
			if t, ok := arg.V.(*Term); ok && t.IsConst() && t.Sort.K == KBV {
				if isSigned(arg.T) {
					s = Str{S: fmt.Sprintf(spec, sext(t.C, t.Sort.W))}
				} else {
					s = Str{S: fmt.Sprintf(spec, t.C)}
				}
			} else if sv, ok := arg.V.(Str); ok && sv.IsConc() && verb != 'q' {
				s = Str{S: fmt.Sprintf(spec, sv.Conc())}
			}
		}
		res = w.strConcat(res, s)
	}
	res = w.strConcat(res, Str{S: fs[last:]})
	if ai < len(args) {
		res = w.strConcat(res, Str{S: "%!(EXTRA)"})
	}
	return res, wrapped
}

func extSprintf(fr *frame, a []Value) Value {
	s, _ := fr.format(a[0].(Str), a[1].(Slice))
	return s
}

func extSprint(fr *frame, a []Value) Value {
	w := fr.w
	res := Str{}
	args := a[0].(Slice)
	prevString := true
	for i, x := range args {
		xi := x.(Iface)
		_, isStr := xi.V.(Str)
		if i > 0 && !isStr && !prevString {
			res = w.strConcat(res, Str{S: " "})
		}
		res = w.strConcat(res, fr.valueToStr(xi, 'v'))
		prevString = isStr
	}
	return res
}

func extSprintln(fr *frame, a []Value) Value {
	w := fr.w
	res := Str{}
	for i, x := range a[0].(Slice) {
		if i > 0 {
			res = w.strConcat(res, Str{S: " "})
		}
		res = w.strConcat(res, fr.valueToStr(x.(Iface), 'v'))
	}
	return w.strConcat(res, Str{S: "\n"})
}

func extErrorf(fr *frame, a []Value) Value {
	w := fr.w
	s, wrapped := fr.format(a[0].(Str), a[1].(Slice))
	fmtPkg := w.prog.ImportedPackage("fmt")
	switch len(wrapped) {
	case 0:
		return w.newError(s)
	case 1:
		t := fmtPkg.Type("wrapError").Type()
		var v Value = Struct{s, wrapped[0]}
		return Iface{T: types.NewPointer(t), V: &v}
	}
	t := fmtPkg.Type("wrapErrors").Type()
	errs := make(Slice, len(wrapped))
	for i, e := range wrapped {
		errs[i] = e
	}
	var v Value = Struct{s, errs}
	return Iface{T: types.NewPointer(t), V: &v}
}

// ---------------------------------------------------------------------------
// sort.Slice: insertion sort driving the (possibly symbolic) comparator.

func extSortSlice(fr *frame, a []Value) Value {
	xs, ok := a[0].(Iface).V.(Slice)
	if !ok {
		fr.p.unsupported("sort.Slice on non-slice")
	}
	less := a[1]
	w := fr.w
	for i := 1; i < len(xs); i++ {
		for j := i; j > 0; j-- {
			r := w.call(fr, token.NoPos, less, []Value{w.bv64(int64(j)), w.bv64(int64(j - 1))})
			if !fr.p.branch(r.(*Term)) {
				break
			}
			xs[j], xs[j-1] = xs[j-1], xs[j]
		}
	}
	return nil
}

func extSliceIsSorted(fr *frame, a []Value) Value {
	xs := a[0].(Iface).V.(Slice)
	less := a[1]
	w := fr.w
	for i := len(xs) - 1; i > 0; i-- {
		r := w.call(fr, token.NoPos, less, []Value{w.bv64(int64(i)), w.bv64(int64(i - 1))})
		if fr.p.branch(r.(*Term)) {
			return w.tt.False
		}
	}
	return w.tt.True
}

// ---------------------------------------------------------------------------
// sync

func structOf(v Value) Struct { return (*v.(*Value)).(Struct) }

func nilRecv(v Value, what string) {
	if pv, ok := v.(*Value); ok && pv == nil {
		panic(runtimePanic("nil pointer dereference (" + what + ")"))
	}
}

// sync.Mutex{state int32, sema uint32}: state==1 means locked.
func extMutexLock(fr *frame, a []Value) Value {
	nilRecv(a[0], "Mutex.Lock")
	m := structOf(a[0])
	if !syncInternal(fr) {
		fr.p.yield("Mutex.Lock")
	}
	fr.p.blockUntil(func() bool { return m[0].(*Term).C == 0 }, "Mutex.Lock")
	fr.p.setCell(&m[0], fr.w.tt.BVC(32, 1))
	return nil
}

func extMutexUnlock(fr *frame, a []Value) Value {
	nilRecv(a[0], "Mutex.Unlock")
	m := structOf(a[0])
	if m[0].(*Term).C == 0 {
		fr.p.fatal("sync: unlock of unlocked mutex")
	}
	fr.p.setCell(&m[0], fr.w.tt.BVC(32, 0))
	return nil
}

func extMutexTryLock(fr *frame, a []Value) Value {
	m := structOf(a[0])
	fr.p.yield("Mutex.TryLock")
	if m[0].(*Term).C != 0 {
		return fr.w.tt.False
	}
	fr.p.setCell(&m[0], fr.w.tt.BVC(32, 1))
	return fr.w.tt.True
}

// sync.RWMutex{w Mutex, writerSem, readerSem uint32, readerCount, readerWait atomic.Int32}
// model: w.state = writer held; readerSem = active reader count.
func extRWLock(fr *frame, a []Value) Value {
	nilRecv(a[0], "RWMutex.Lock")
	rw := structOf(a[0])
	m := rw[0].(Struct)
	fr.p.yield("RWMutex.Lock")
	fr.p.blockUntil(func() bool { return m[0].(*Term).C == 0 && rw[2].(*Term).C == 0 }, "RWMutex.Lock")
	fr.p.setCell(&m[0], fr.w.tt.BVC(32, 1))
	return nil
}

func extRWTryLock(fr *frame, a []Value) Value {
	rw := structOf(a[0])
	m := rw[0].(Struct)
	fr.p.yield("RWMutex.TryLock")
	if m[0].(*Term).C != 0 || rw[2].(*Term).C != 0 {
		return fr.w.tt.False
	}
	fr.p.setCell(&m[0], fr.w.tt.BVC(32, 1))
	return fr.w.tt.True
}

func extRWUnlock(fr *frame, a []Value) Value {
	nilRecv(a[0], "RWMutex.Unlock")
	rw := structOf(a[0])
	m := rw[0].(Struct)
	if m[0].(*Term).C == 0 {
		fr.p.fatal("sync: Unlock of unlocked RWMutex")
	}
	fr.p.setCell(&m[0], fr.w.tt.BVC(32, 0))
	return nil
}

func extRWRLock(fr *frame, a []Value) Value {
	nilRecv(a[0], "RWMutex.RLock")
	rw := structOf(a[0])
	m := rw[0].(Struct)
	fr.p.yield("RWMutex.RLock")
	fr.p.blockUntil(func() bool { return m[0].(*Term).C == 0 }, "RWMutex.RLock")
	fr.p.setCell(&rw[2], fr.w.tt.BVC(32, rw[2].(*Term).C+1))
	return nil
}

func extRWRUnlock(fr *frame, a []Value) Value {
	nilRecv(a[0], "RWMutex.RUnlock")
	rw := structOf(a[0])
	if rw[2].(*Term).C == 0 {
		fr.p.fatal("sync: RUnlock of unlocked RWMutex")
	}
	fr.p.setCell(&rw[2], fr.w.tt.BVC(32, rw[2].(*Term).C-1))
	return nil
}

// WaitGroup: go1.23 layout {noCopy, state atomic.Uint64, sema uint32}; counter kept in sema.
func wgCounterCell(fr *frame, v Value) *Value {
	s := structOf(v)
	return &s[len(s)-1]
}

func extWGAdd(fr *frame, a []Value) Value {
	c := wgCounterCell(fr, a[0])
	d := a[1].(*Term)
	n := int32((*c).(*Term).C) + int32(sext(fr.p.concInt(d), d.Sort.W))
	if n < 0 {
		panic(targetPanic{v: fr.w.newError(Str{S: "sync: negative WaitGroup counter"})})
	}
	fr.p.setCell(c, fr.w.tt.BVC(32, uint64(uint32(n))))
	return nil
}

func extWGWait(fr *frame, a []Value) Value {
	c := wgCounterCell(fr, a[0])
	fr.p.yield("WaitGroup.Wait")
	fr.p.blockUntil(func() bool { return (*c).(*Term).C == 0 }, "WaitGroup.Wait")
	return nil
}

func extPoolGet(fr *frame, a []Value) Value {
	pool := structOf(a[0])
	// field "New" is the last field
	nf := pool[len(pool)-1]
	if isNilFunc(nf) {
		return Iface{}
	}
	return fr.w.call(fr, token.NoPos, nf, nil)
}

// sync.Once{done atomic.Uint32 {_, v uint32}, m Mutex}
func extOnceDo(fr *frame, a []Value) Value {
	nilRecv(a[0], "Once.Do")
	o := structOf(a[0])
	done := o[0].(Struct)
	cell := &done[len(done)-1]
	fr.p.yield("Once.Do")
	if (*cell).(*Term).C != 0 {
		return nil
	}
	// mark done after f returns (even if it panics), like the real implementation
	defer func() { fr.p.setCell(cell, fr.w.tt.BVC(32, 1)) }()
	fr.w.call(fr, token.NoPos, a[1], nil)
	return nil
}

func (p *Path) yieldAtomic(fr *frame, what string) {
	if syncInternal(fr) {
		return
	}
	p.yield(what)
}

func extAtomicLoad(fr *frame, a []Value) Value {
	nilRecv(a[0], "atomic load")
	fr.p.yieldAtomic(fr, "atomic.Load")
	return *a[0].(*Value)
}

func extAtomicStore(fr *frame, a []Value) Value {
	nilRecv(a[0], "atomic store")
	fr.p.yieldAtomic(fr, "atomic.Store")
	fr.p.setCell(a[0].(*Value), a[1])
	return nil
}

func extAtomicAdd(fr *frame, a []Value) Value {
	nilRecv(a[0], "atomic add")
	fr.p.yieldAtomic(fr, "atomic.Add")
	c := a[0].(*Value)
	n := fr.w.tt.Add((*c).(*Term), a[1].(*Term))
	fr.p.setCell(c, n)
	return n
}

func extAtomicAnd(fr *frame, a []Value) Value {
	fr.p.yieldAtomic(fr, "atomic.And")
	c := a[0].(*Value)
	old := (*c).(*Term)
	fr.p.setCell(c, fr.w.tt.BAnd(old, a[1].(*Term)))
	return old
}

func extAtomicOr(fr *frame, a []Value) Value {
	fr.p.yieldAtomic(fr, "atomic.Or")
	c := a[0].(*Value)
	old := (*c).(*Term)
	fr.p.setCell(c, fr.w.tt.BOr(old, a[1].(*Term)))
	return old
}

func extAtomicSwap(fr *frame, a []Value) Value {
	fr.p.yieldAtomic(fr, "atomic.Swap")
	c := a[0].(*Value)
	old := *c
	fr.p.setCell(c, a[1])
	return old
}

func extAtomicCAS(fr *frame, a []Value) Value {
	fr.p.yieldAtomic(fr, "atomic.CAS")
	c := a[0].(*Value)
	eq := fr.w.tt.Eq((*c).(*Term), a[1].(*Term))
	if fr.p.branch(eq) {
		fr.p.setCell(c, a[2])
		return fr.w.tt.True
	}
	return fr.w.tt.False
}

func extAtomicCASPtr(fr *frame, a []Value) Value {
	fr.p.yieldAtomic(fr, "atomic.CAS")
	c := a[0].(*Value)
	if ptrIdent((*c).(UnsafePtr).P) == ptrIdent(a[1].(UnsafePtr).P) {
		fr.p.setCell(c, a[2])
		return fr.w.tt.True
	}
	return fr.w.tt.False
}

// atomic.Value{v any}
func extAtomicValueLoad(fr *frame, a []Value) Value {
	fr.p.yieldAtomic(fr, "atomic.Value.Load")
	return structOf(a[0])[0]
}

func extAtomicValueStore(fr *frame, a []Value) Value {
	fr.p.yieldAtomic(fr, "atomic.Value.Store")
	v := a[1].(Iface)
	if v.T == nil {
		panic(targetPanic{v: fr.w.newError(Str{S: "sync/atomic: store of nil value into Value"})})
	}
	fr.p.setCell(&structOf(a[0])[0], v)
	return nil
}

// ---------------------------------------------------------------------------
// time.Now: harness clock (function vhNow in the harness package) or the default
// monotone symbolic clock: seconds in [0, 2^36), nanoseconds in [0, 1e9).

const unixToInternal = (1969*365 + 1969/4 - 1969/100 + 1969/400) * 86400

func extTimeNow(fr *frame, a []Value) Value {
	w := fr.w
	if h := w.hpkg.Func("vhNow"); h != nil {
		return w.call(fr, token.NoPos, h, nil)
	}
	tt := w.tt
	p := fr.p
	sec := p.nondet("now.sec", BV(64), "i64")
	nsec := p.nondet("now.nsec", BV(64), "i64")
	p.addPC(tt.ULT(sec, tt.BVC(64, 1<<36)))
	p.addPC(tt.ULT(nsec, tt.BVC(64, 1000000000)))
	if p.clockSec != nil {
		p.addPC(tt.Or(tt.ULT(p.clockSec, sec), tt.And(tt.Eq(p.clockSec, sec), tt.ULE(p.clockNsec, nsec))))
	}
	p.clockSec, p.clockNsec = sec, nsec
	// Time{wall uint64, ext int64, loc *Location}: no monotonic reading
	return Struct{nsec, tt.Add(sec, tt.BVC(64, uint64(int64(unixToInternal)))), (*Value)(nil)}
}

// ---------------------------------------------------------------------------
// Default handling for functions without a body and for well-known noisy callees.

var logrusRe = regexp.MustCompile(`^\(\*?github\.com/sirupsen/logrus\.(Entry|Logger)\)\.`)

func (w *Worker) defaultExternal(fr *frame, fn *ssa.Function, args []Value) (Value, bool) {
	return nil, false
}

// defaultStub short-circuits logging and similar side channels (empty bodies).
func (w *Worker) defaultStub(fr *frame, fn *ssa.Function, name string, args []Value) (Value, bool) {
	if fn.Pkg == nil {
		return nil, false
	}
	path := fn.Pkg.Pkg.Path()
	if path == "github.com/sirupsen/logrus" {
		res := fn.Signature.Results()
		if res.Len() == 0 {
			return nil, true
		}
		if res.Len() == 1 {
			rt := res.At(0).Type()
			if _, ok := rt.Underlying().(*types.Pointer); ok {
				// builder-style methods return a non-nil *Entry / *Logger
				return w.newObject(rt), true
			}
			return w.zero(rt), true
		}
		return w.zero(res), true
	}
	return nil, false
}

// callStub applies a harness-declared stub.
func (w *Worker) callStub(fr *frame, fn *ssa.Function, how string, args []Value) Value {
	switch how {
	case "noop":
		res := fn.Signature.Results()
		switch res.Len() {
		case 0:
			return nil
		case 1:
			return w.zero(res.At(0).Type())
		}
		return w.zero(res)
	}
	h := w.hpkg.Func(how)
	if h == nil {
		fr.p.unsupported("stub target %s not found in harness package", how)
	}
	if fn.Signature.Recv() != nil && h.Signature.Params().Len() == len(args)-1 {
		// replacement without the receiver parameter (receiver type unexported in another package)
		args = args[1:]
	}
	return w.call(fr, token.NoPos, h, args)
}
