package symgo

import (
	"fmt"
	"sort"
	"strings"
	"time"
)

// A Decision is the recorded outcome of one symbolic fork on a path.
type Decision struct {
	Taken bool   `json:"t"`
	Val   uint64 `json:"v,omitempty"` // for concretisations: the candidate value
	Conc  bool   `json:"c,omitempty"`
}

type abortKind int

const (
	abortInfeasible  abortKind = iota // vAssume(false) / infeasible prefix
	abortUnsupported                  // unmodelled construct
	abortBudget                       // unwinding / instruction budget exceeded
	abortCut                          // vCut: deliberately outside the claim
	abortSolver                       // solver unknown/error on a feasibility query that matters
	abortDone                         // harness requested end of path
)

type pathAbort struct {
	kind   abortKind
	reason string
}

// targetPanic is a Go-level panic raised by the program under test.
type targetPanic struct {
	v       Value // the panic value (an Iface)
	runtime bool  // raised by an implicit runtime check
	msg     string
	site    string
}

func runtimePanic(msg string) targetPanic {
	return targetPanic{runtime: true, msg: msg}
}

type NondetRec struct {
	Name string
	T    *Term
	Kind string // type label
}

type Violation struct {
	Harness string            `json:"harness"`
	Site    string            `json:"site"`  // assertion id or panic@func:kind
	Class   string            `json:"class"` // witness class
	Msg     string            `json:"msg"`
	Model   map[string]string `json:"model"`
	Order   []string          `json:"order"`  // nondet names in draw order
	Values  []string          `json:"values"` // concrete values in draw order (for replay)
	Kinds   []string          `json:"kinds"`
	Trace   []Decision        `json:"trace"`
	Stack   []string          `json:"stack,omitempty"`
	Obs     []string          `json:"observations,omitempty"`
}

type PathResult struct {
	End        string // "ok", "infeasible", "unsupported", "budget", "cut", "solver", "panic"
	Reason     string
	Violations []*Violation
	Covers     []string
	Forks      int // symbolic decisions with both sides feasible
	Decisions  int
	Steps      int
	Asserts    int // assertion obligations checked
	Discharged int
	NewWork    [][]Decision
	ForkSites  []string
	Trace      []Decision
	Sample     string
	Observed   []string
}

type Path struct {
	w      *Worker
	prefix []Decision
	pos    int
	trace  []Decision
	pc     []*Term
	res    *PathResult

	nondets  []NondetRec
	nseq     map[string]int
	covers   map[string]bool
	classes  []string
	observed []string
	steps    int
	depth    int

	mapOrderNondet bool
	pinned         []string // pinned nondet values (concrete replay mode)
	pinPos         int
	seeded         bool // pinned values come from the shared PRNG
	rng            uint64

	clockSec, clockNsec *Term // last clock reading (monotone clock model)
	nextTag             string
	blobs               []Iface // JSON identity codec snapshots
	blobIndex           map[string]int
	elemOrigin          map[*Value]elemRef
	undo                []undoRec
	atomicDepth         int
	preemptions         int
	preemptBound        int

	stack []string // call stack (function names) for diagnostics
	gor   *sched   // goroutine scheduler (nil until first `go`)
}

func (p *Path) abort(kind abortKind, format string, args ...interface{}) {
	panic(pathAbort{kind, fmt.Sprintf(format, args...)})
}

func (p *Path) unsupported(format string, args ...interface{}) {
	panic(pathAbort{abortUnsupported, fmt.Sprintf(format, args...)})
}

// addPC appends a constraint to the path condition and the solver scope.
func (p *Path) addPC(c *Term) {
	if c.IsTrue() {
		return
	}
	if c.IsFalse() {
		p.abort(abortInfeasible, "constraint is false")
	}
	p.pc = append(p.pc, c)
	if err := p.w.solver.Assert(c); err != nil {
		p.unsupported("encoding: %v", err)
	}
}

// feasible asks whether pc ∧ c is satisfiable. Unknown counts as feasible (sound).
func (p *Path) feasible(c *Term) bool {
	if c.IsTrue() {
		return true
	}
	if c.IsFalse() {
		return false
	}
	if hd := p.w.cfg.HardDeadline; !hd.IsZero() && time.Now().After(hd) {
		p.abort(abortBudget, "exploration deadline reached in the middle of a path")
	}
	r := p.w.solver.CheckWith(c)
	switch r {
	case Sat:
		return true
	case Unsat:
		return false
	case Unknown:
		p.w.stats.UnknownFeas++
		return true
	default:
		if strings.Contains(p.w.solver.LastError, "int-mode") {
			p.unsupported("encoding: %s", p.w.solver.LastError)
		}
		p.abort(abortSolver, "solver error: %s", p.w.solver.LastError)
	}
	return true
}

// branch decides a symbolic condition, forking if both sides are feasible.
func (p *Path) branch(c *Term) bool {
	if c.IsConst() {
		return c.C == 1
	}
	p.res.Decisions++
	if p.res.Decisions > p.w.cfg.MaxDecisions {
		p.abort(abortBudget, "more than %d symbolic decisions on one path (unwinding bound)", p.w.cfg.MaxDecisions)
	}
	var taken bool
	if p.pos < len(p.prefix) {
		d := p.prefix[p.pos]
		p.pos++
		taken = d.Taken
		p.trace = append(p.trace, d)
	} else {
		tOK := p.feasible(c)
		fOK := true
		if tOK {
			fOK = p.feasible(p.w.tt.Not(c))
		}
		switch {
		case tOK && fOK:
			p.res.Forks++
			p.noteFork()
			alt := append(append([]Decision{}, p.trace...), Decision{Taken: false})
			p.res.NewWork = append(p.res.NewWork, alt)
			taken = true
		case tOK:
			taken = true
		default:
			taken = false
		}
		p.trace = append(p.trace, Decision{Taken: taken})
		p.pos = len(p.trace)
		p.prefix = p.trace
	}
	if taken {
		p.addPC(c)
	} else {
		p.addPC(p.w.tt.Not(c))
	}
	return taken
}

// concretize enumerates the feasible concrete values of t (forking per value).
// noteFork records where a fork happened (fork histogram of -v: finds the location that multiplies paths).
func (p *Path) noteFork() {
	n := len(p.stack)
	lo := n - 2
	if lo < 0 {
		lo = 0
	}
	p.res.ForkSites = append(p.res.ForkSites, strings.Join(p.stack[lo:], " > "))
}

func (p *Path) concretize(t *Term) uint64 {
	for {
		if t.IsConst() {
			return t.C
		}
		p.res.Decisions++
		if p.res.Decisions > p.w.cfg.MaxDecisions {
			p.abort(abortBudget, "more than %d symbolic decisions on one path", p.w.cfg.MaxDecisions)
		}
		var d Decision
		if p.pos < len(p.prefix) {
			d = p.prefix[p.pos]
			p.pos++
			p.trace = append(p.trace, d)
		} else {
			v, ok := p.modelValue(t)
			if !ok {
				p.abort(abortSolver, "no model for concretisation")
			}
			eq := p.w.tt.Eq(t, p.w.tt.BVC(t.Sort.W, v))
			other := p.feasible(p.w.tt.Not(eq))
			if other {
				p.res.Forks++
				p.noteFork()
				alt := append(append([]Decision{}, p.trace...), Decision{Taken: false, Val: v, Conc: true})
				p.res.NewWork = append(p.res.NewWork, alt)
			}
			d = Decision{Taken: true, Val: v, Conc: true}
			p.trace = append(p.trace, d)
			p.pos = len(p.trace)
			p.prefix = p.trace
		}
		eq := p.w.tt.Eq(t, p.w.tt.BVC(t.Sort.W, d.Val))
		if d.Taken {
			p.addPC(eq)
			return d.Val
		}
		p.addPC(p.w.tt.Not(eq))
	}
}

// modelValue returns some value of t consistent with the path condition.
func (p *Path) modelValue(t *Term) (uint64, bool) {
	s := p.w.solver
	r := s.Check()
	if r != Sat {
		return 0, false
	}
	vs, err := s.GetValues([]*Term{t})
	if err != nil {
		return 0, false
	}
	return vs[0].U, true
}

// chooseIndex is a nondeterministic choice in [0,n): a fresh symbolic variable,
// immediately concretised (forks per value).
func (p *Path) chooseIndex(n int, label string) int {
	if n <= 1 {
		return 0
	}
	if p.seeded {
		return int(p.rngNext() % uint64(n))
	}
	v := p.nondet(label, BV(64), "choice")
	p.addPC(p.w.tt.ULT(v, p.w.tt.BVC(64, uint64(n))))
	return int(p.concretize(v))
}

// nondet creates a fresh symbolic variable (or a pinned concrete value).
func (p *Path) nondet(label string, s Sort, kind string) *Term {
	if p.nseq == nil {
		p.nseq = map[string]int{}
	}
	k := p.nseq[label]
	p.nseq[label] = k + 1
	name := sanitize(label) + "!" + fmt.Sprint(k)
	var t *Term
	if p.pinned != nil || p.seeded {
		t = p.pinnedValue(s)
	} else {
		t = p.w.tt.Var(name, s)
	}
	p.nondets = append(p.nondets, NondetRec{Name: name, T: t, Kind: kind})
	return t
}

func sanitize(s string) string {
	var sb strings.Builder
	for _, c := range s {
		if (c >= 'a' && c <= 'z') || (c >= 'A' && c <= 'Z') || (c >= '0' && c <= '9') || c == '_' || c == '.' {
			sb.WriteRune(c)
		} else {
			sb.WriteByte('_')
		}
	}
	if sb.Len() == 0 {
		return "v"
	}
	return sb.String()
}

// check is an implicit runtime check: forks; the failing side raises a Go panic
// in the program under test (which may be recovered by deferred code).
func (p *Path) check(ok *Term, msg string) {
	if ok.IsTrue() {
		return
	}
	if !p.branch(ok) {
		panic(runtimePanic(msg))
	}
}

// assert is an explicit property assertion (vAssert): a violated assertion is
// recorded with a model and the path continues under the assumption it held.
func (p *Path) assert(c *Term, site, msg string) {
	p.res.Asserts++
	if c.IsTrue() {
		p.res.Discharged++
		return
	}
	neg := p.w.tt.Not(c)
	var r Result
	if c.IsFalse() {
		r = Sat
	} else {
		r = p.w.solver.CheckWith(neg)
	}
	switch r {
	case Unsat:
		p.res.Discharged++
	case Sat:
		p.w.solver.Push()
		if err := p.w.solver.Assert(neg); err == nil {
			p.recordViolation(site, msg, nil)
		}
		p.w.solver.Pop()
		// continue on the side where the assertion holds, if any
		if c.IsFalse() || !p.feasible(c) {
			p.abort(abortDone, "assertion fails on all continuations")
		}
		p.addPC(c)
	case Unknown:
		p.abort(abortSolver, "assertion %s: solver returned unknown", site)
	default:
		if strings.Contains(p.w.solver.LastError, "int-mode") {
			p.unsupported("encoding: %s", p.w.solver.LastError)
		}
		p.abort(abortSolver, "assertion %s: %s", site, p.w.solver.LastError)
	}
}

// recordViolation captures a model of the current solver state.
func (p *Path) recordViolation(site, msg string, stack []string) {
	v := &Violation{Harness: p.w.cfg.Entry, Site: site, Msg: msg, Model: map[string]string{}}
	s := p.w.solver
	var ts []*Term
	for _, n := range p.nondets {
		ts = append(ts, n.T)
	}
	vals := make([]ModelValue, len(ts))
	if s.Check() == Sat {
		if got, err := s.GetValues(symbolicOnly(ts)); err == nil {
			j := 0
			for i, t := range ts {
				if t.IsConst() {
					vals[i] = ModelValue{Sort: t.Sort, U: t.C, F: t.F}
				} else {
					vals[i] = got[j]
					j++
				}
			}
		} else {
			v.Msg += " [model unavailable: " + err.Error() + "]"
		}
	} else {
		// the assertion query said sat but the re-check for the model did not: not a trustworthy verdict
		p.abort(abortSolver, "model re-check for %s did not return sat", site)
	}
	for i, n := range p.nondets {
		sv := fmtModelValue(vals[i])
		v.Model[n.Name] = sv
		v.Order = append(v.Order, n.Name)
		v.Values = append(v.Values, sv)
		v.Kinds = append(v.Kinds, n.Kind)
	}
	v.Class = strings.Join(p.classes, ",")
	v.Trace = append([]Decision{}, p.trace...)
	v.Stack = stack
	v.Obs = append([]string{}, p.observed...)
	p.res.Violations = append(p.res.Violations, v)
}

func symbolicOnly(ts []*Term) []*Term {
	var out []*Term
	for _, t := range ts {
		if !t.IsConst() {
			out = append(out, t)
		}
	}
	return out
}

func fmtModelValue(m ModelValue) string {
	switch m.Sort.K {
	case KBool:
		if m.U == 1 {
			return "true"
		}
		return "false"
	case KFP:
		return fmt.Sprintf("%v", m.F)
	}
	return fmt.Sprintf("%d", m.U)
}

func (p *Path) coverList() []string {
	var out []string
	for c := range p.covers {
		out = append(out, c)
	}
	sort.Strings(out)
	return out
}
