package symgo

import (
	"fmt"
	"math"
	"math/big"
	"sort"
	"strconv"
	"strings"
)

// ---------------------------------------------------------------------------
// Terms: hash-consed SMT terms (Bool, BitVec n, Float64/32, uninterpreted apps).
// One TermTable per worker (no locking).

type SortKind uint8

const (
	KBool SortKind = iota
	KBV
	KFP
)

type Sort struct {
	K SortKind
	W int // BV width, FP total width (32|64)
}

var BoolSort = Sort{KBool, 0}

func BV(w int) Sort { return Sort{KBV, w} }
func FP(w int) Sort { return Sort{KFP, w} }

func (s Sort) String() string {
	switch s.K {
	case KBool:
		return "Bool"
	case KBV:
		return fmt.Sprintf("(_ BitVec %d)", s.W)
	case KFP:
		if s.W == 32 {
			return "(_ FloatingPoint 8 24)"
		}
		return "(_ FloatingPoint 11 53)"
	}
	return "?"
}

type Op uint8

const (
	OConst Op = iota
	OVar
	ONot
	OAnd
	OOr
	OIte
	OEq
	OBVAdd
	OBVSub
	OBVMul
	OBVUDiv
	OBVSDiv
	OBVURem
	OBVSRem
	OBVAnd
	OBVOr
	OBVXor
	OBVNot
	OBVNeg
	OBVShl
	OBVLShr
	OBVAShr
	OULT
	OULE
	OSLT
	OSLE
	OExtract // P1=hi P2=lo
	OConcat
	OZeroExt // P1 = extra bits
	OSignExt
	OFPLt
	OFPLe
	OFPEq
	OFPNeg
	OFPAdd
	OFPSub
	OFPMul
	OFPDiv
	OFPIsNaN
	OFPToSBV // P1 = width
	OFPToUBV
	OSBVToFP // P1 = fp width
	OUBVToFP
	OFPToFP // P1 = target width
	OFPBits // fp -> bv (via fresh var constraint; printed as to_ieee_bv)
	OUF     // Name = function, Sort = result
)

var opNames = map[Op]string{
	ONot: "not", OAnd: "and", OOr: "or", OIte: "ite", OEq: "=",
	OBVAdd: "bvadd", OBVSub: "bvsub", OBVMul: "bvmul", OBVUDiv: "bvudiv", OBVSDiv: "bvsdiv",
	OBVURem: "bvurem", OBVSRem: "bvsrem", OBVAnd: "bvand", OBVOr: "bvor", OBVXor: "bvxor",
	OBVNot: "bvnot", OBVNeg: "bvneg", OBVShl: "bvshl", OBVLShr: "bvlshr", OBVAShr: "bvashr",
	OULT: "bvult", OULE: "bvule", OSLT: "bvslt", OSLE: "bvsle", OConcat: "concat",
	OFPLt: "fp.lt", OFPLe: "fp.leq", OFPEq: "fp.eq", OFPNeg: "fp.neg", OFPIsNaN: "fp.isNaN",
}

type Term struct {
	Op   Op
	Sort Sort
	Args []*Term
	C    uint64  // BV const (masked) / bool const (0|1)
	F    float64 // FP const
	P1   int
	P2   int
	Name string
	id   int
}

func (t *Term) IsConst() bool { return t.Op == OConst }
func (t *Term) IsTrue() bool  { return t.Op == OConst && t.Sort.K == KBool && t.C == 1 }
func (t *Term) IsFalse() bool { return t.Op == OConst && t.Sort.K == KBool && t.C == 0 }

type TermTable struct {
	tab    map[string]*Term
	nextID int
	ufs    map[string]ufSig // uf name -> signature
	True   *Term
	False  *Term
}

func NewTermTable() *TermTable {
	tt := &TermTable{tab: map[string]*Term{}, ufs: map[string]ufSig{}}
	tt.True = tt.BoolC(true)
	tt.False = tt.BoolC(false)
	return tt
}

func (tt *TermTable) intern(t *Term) *Term {
	var sb strings.Builder
	sb.WriteByte(byte(t.Op) + 'A')
	sb.WriteByte(byte(t.Sort.K) + '0')
	sb.WriteString(strconv.Itoa(t.Sort.W))
	sb.WriteByte(':')
	switch t.Op {
	case OConst:
		if t.Sort.K == KFP {
			sb.WriteString(strconv.FormatUint(math.Float64bits(t.F), 16))
		} else {
			sb.WriteString(strconv.FormatUint(t.C, 16))
		}
	case OVar, OUF:
		sb.WriteString(t.Name)
	}
	if t.P1 != 0 || t.P2 != 0 {
		sb.WriteByte('p')
		sb.WriteString(strconv.Itoa(t.P1))
		sb.WriteByte(',')
		sb.WriteString(strconv.Itoa(t.P2))
	}
	for _, a := range t.Args {
		sb.WriteByte(' ')
		sb.WriteString(strconv.Itoa(a.id))
	}
	k := sb.String()
	if e, ok := tt.tab[k]; ok {
		return e
	}
	tt.nextID++
	t.id = tt.nextID
	tt.tab[k] = t
	return t
}

func mask(w int) uint64 {
	if w >= 64 {
		return ^uint64(0)
	}
	return (uint64(1) << uint(w)) - 1
}

func sext(v uint64, w int) int64 {
	if w >= 64 {
		return int64(v)
	}
	if v&(1<<uint(w-1)) != 0 {
		return int64(v | ^mask(w))
	}
	return int64(v)
}

func (tt *TermTable) BoolC(b bool) *Term {
	c := uint64(0)
	if b {
		c = 1
	}
	return tt.intern(&Term{Op: OConst, Sort: BoolSort, C: c})
}

func (tt *TermTable) BVC(w int, v uint64) *Term {
	return tt.intern(&Term{Op: OConst, Sort: BV(w), C: v & mask(w)})
}

func (tt *TermTable) FPC(w int, f float64) *Term {
	if w == 32 {
		f = float64(float32(f))
	}
	return tt.intern(&Term{Op: OConst, Sort: FP(w), F: f})
}

func (tt *TermTable) Var(name string, s Sort) *Term {
	return tt.intern(&Term{Op: OVar, Sort: s, Name: name})
}

func (tt *TermTable) mk(op Op, s Sort, args ...*Term) *Term {
	return tt.intern(&Term{Op: op, Sort: s, Args: args})
}

func (tt *TermTable) mkP(op Op, s Sort, p1, p2 int, args ...*Term) *Term {
	return tt.intern(&Term{Op: op, Sort: s, Args: args, P1: p1, P2: p2})
}

// ---- Boolean ----

func (tt *TermTable) Not(a *Term) *Term {
	if a.IsConst() {
		return tt.BoolC(a.C == 0)
	}
	if a.Op == ONot {
		return a.Args[0]
	}
	return tt.mk(ONot, BoolSort, a)
}

func (tt *TermTable) And(as ...*Term) *Term {
	var out []*Term
	seen := map[int]bool{}
	for _, a := range as {
		if a.IsFalse() {
			return tt.False
		}
		if a.IsTrue() {
			continue
		}
		if a.Op == OAnd {
			for _, b := range a.Args {
				if !seen[b.id] {
					seen[b.id] = true
					out = append(out, b)
				}
			}
			continue
		}
		if !seen[a.id] {
			seen[a.id] = true
			out = append(out, a)
		}
	}
	for _, a := range out {
		if a.Op == ONot && seen[a.Args[0].id] {
			return tt.False
		}
	}
	switch len(out) {
	case 0:
		return tt.True
	case 1:
		return out[0]
	}
	return tt.mk(OAnd, BoolSort, out...)
}

func (tt *TermTable) Or(as ...*Term) *Term {
	var out []*Term
	seen := map[int]bool{}
	for _, a := range as {
		if a.IsTrue() {
			return tt.True
		}
		if a.IsFalse() {
			continue
		}
		if a.Op == OOr {
			for _, b := range a.Args {
				if !seen[b.id] {
					seen[b.id] = true
					out = append(out, b)
				}
			}
			continue
		}
		if !seen[a.id] {
			seen[a.id] = true
			out = append(out, a)
		}
	}
	for _, a := range out {
		if a.Op == ONot && seen[a.Args[0].id] {
			return tt.True
		}
	}
	switch len(out) {
	case 0:
		return tt.False
	case 1:
		return out[0]
	}
	return tt.mk(OOr, BoolSort, out...)
}

func (tt *TermTable) Implies(a, b *Term) *Term { return tt.Or(tt.Not(a), b) }

func (tt *TermTable) Ite(c, a, b *Term) *Term {
	if c.IsConst() {
		if c.C == 1 {
			return a
		}
		return b
	}
	if a == b {
		return a
	}
	if a.Sort.K == KBool {
		if a.IsTrue() && b.IsFalse() {
			return c
		}
		if a.IsFalse() && b.IsTrue() {
			return tt.Not(c)
		}
		if a.IsTrue() {
			return tt.Or(c, b)
		}
		if a.IsFalse() {
			return tt.And(tt.Not(c), b)
		}
		if b.IsTrue() {
			return tt.Or(tt.Not(c), a)
		}
		if b.IsFalse() {
			return tt.And(c, a)
		}
	}
	if c.Op == ONot {
		return tt.Ite(c.Args[0], b, a)
	}
	return tt.mk(OIte, a.Sort, c, a, b)
}

func (tt *TermTable) Eq(a, b *Term) *Term {
	if a == b {
		if a.Sort.K == KFP {
			// NaN != NaN: not foldable unless const
			if a.IsConst() {
				return tt.BoolC(a.F == a.F)
			}
			return tt.mk(OFPEq, BoolSort, a, b)
		}
		return tt.True
	}
	if a.Sort != b.Sort {
		panic(fmt.Sprintf("Eq sort mismatch %v %v", a.Sort, b.Sort))
	}
	if a.IsConst() && b.IsConst() {
		if a.Sort.K == KFP {
			return tt.BoolC(a.F == b.F)
		}
		return tt.BoolC(a.C == b.C)
	}
	if a.Sort.K == KFP {
		return tt.mk(OFPEq, BoolSort, a, b)
	}
	if a.Sort.K == KBool {
		if a.IsConst() {
			a, b = b, a
		}
		if b.IsTrue() {
			return a
		}
		if b.IsFalse() {
			return tt.Not(a)
		}
	}
	// ite(c, k1, k2) == k  with constants
	if b.IsConst() && a.Op == OIte && a.Args[1].IsConst() && a.Args[2].IsConst() {
		return tt.Ite(a.Args[0], tt.Eq(a.Args[1], b), tt.Eq(a.Args[2], b))
	}
	if a.IsConst() && b.Op == OIte && b.Args[1].IsConst() && b.Args[2].IsConst() {
		return tt.Ite(b.Args[0], tt.Eq(b.Args[1], a), tt.Eq(b.Args[2], a))
	}
	// zero_extend(x) == const
	if b.IsConst() && a.Op == OZeroExt {
		iw := a.Args[0].Sort.W
		if b.C&^mask(iw) != 0 {
			return tt.False
		}
		return tt.Eq(a.Args[0], tt.BVC(iw, b.C))
	}
	if a.IsConst() && b.Op == OZeroExt {
		return tt.Eq(b, a)
	}
	if a.id > b.id {
		a, b = b, a
	}
	return tt.mk(OEq, BoolSort, a, b)
}

// ---- Bit-vectors ----

func (tt *TermTable) binBV(op Op, a, b *Term) *Term {
	w := a.Sort.W
	if a.Sort != b.Sort {
		panic(fmt.Sprintf("bv op %v sort mismatch %v %v", opNames[op], a.Sort, b.Sort))
	}
	if a.IsConst() && b.IsConst() {
		x, y := a.C, b.C
		var r uint64
		ok := true
		switch op {
		case OBVAdd:
			r = x + y
		case OBVSub:
			r = x - y
		case OBVMul:
			r = x * y
		case OBVAnd:
			r = x & y
		case OBVOr:
			r = x | y
		case OBVXor:
			r = x ^ y
		case OBVUDiv:
			if y == 0 {
				r = mask(w)
			} else {
				r = x / y
			}
		case OBVURem:
			if y == 0 {
				r = x
			} else {
				r = x % y
			}
		case OBVSDiv:
			sx, sy := sext(x, w), sext(y, w)
			if sy == 0 {
				if sx >= 0 {
					r = mask(w)
				} else {
					r = 1
				}
			} else if sy == -1 {
				r = uint64(-sx)
			} else {
				r = uint64(sx / sy)
			}
		case OBVSRem:
			sx, sy := sext(x, w), sext(y, w)
			if sy == 0 {
				r = x
			} else if sy == -1 {
				r = 0
			} else {
				r = uint64(sx % sy)
			}
		case OBVShl:
			if y >= uint64(w) {
				r = 0
			} else {
				r = x << y
			}
		case OBVLShr:
			if y >= uint64(w) {
				r = 0
			} else {
				r = x >> y
			}
		case OBVAShr:
			sx := sext(x, w)
			if y >= uint64(w) {
				if sx < 0 {
					r = mask(w)
				} else {
					r = 0
				}
			} else {
				r = uint64(sx >> y)
			}
		default:
			ok = false
		}
		if ok {
			return tt.BVC(w, r)
		}
	}
	// identities
	switch op {
	case OBVAdd, OBVOr, OBVXor:
		if a.IsConst() && a.C == 0 {
			return b
		}
		if b.IsConst() && b.C == 0 {
			return a
		}
		if op == OBVXor && a == b {
			return tt.BVC(w, 0)
		}
		if op == OBVOr && a == b {
			return a
		}
	case OBVSub:
		if b.IsConst() && b.C == 0 {
			return a
		}
		if a == b {
			return tt.BVC(w, 0)
		}
	case OBVMul:
		if a.IsConst() {
			a, b = b, a
		}
		if b.IsConst() {
			if b.C == 0 {
				return b
			}
			if b.C == 1 {
				return a
			}
		}
	case OBVAnd:
		if a.IsConst() {
			a, b = b, a
		}
		if b.IsConst() {
			if b.C == 0 {
				return b
			}
			if b.C == mask(w) {
				return a
			}
		}
		if a == b {
			return a
		}
	case OBVShl, OBVLShr, OBVAShr:
		if b.IsConst() && b.C == 0 {
			return a
		}
	case OBVUDiv, OBVSDiv:
		if b.IsConst() && b.C == 1 {
			return a
		}
	}
	// (x + c1) + c2
	if op == OBVAdd && b.IsConst() && a.Op == OBVAdd && a.Args[1].IsConst() {
		return tt.binBV(OBVAdd, a.Args[0], tt.BVC(w, a.Args[1].C+b.C))
	}
	if (op == OBVAdd || op == OBVMul || op == OBVAnd || op == OBVOr || op == OBVXor) && a.IsConst() {
		a, b = b, a
	}
	return tt.mk(op, a.Sort, a, b)
}

func (tt *TermTable) Add(a, b *Term) *Term  { return tt.binBV(OBVAdd, a, b) }
func (tt *TermTable) Sub(a, b *Term) *Term  { return tt.binBV(OBVSub, a, b) }
func (tt *TermTable) Mul(a, b *Term) *Term  { return tt.binBV(OBVMul, a, b) }
func (tt *TermTable) UDiv(a, b *Term) *Term { return tt.binBV(OBVUDiv, a, b) }
func (tt *TermTable) SDiv(a, b *Term) *Term { return tt.binBV(OBVSDiv, a, b) }
func (tt *TermTable) URem(a, b *Term) *Term { return tt.binBV(OBVURem, a, b) }
func (tt *TermTable) SRem(a, b *Term) *Term { return tt.binBV(OBVSRem, a, b) }
func (tt *TermTable) BAnd(a, b *Term) *Term { return tt.binBV(OBVAnd, a, b) }
func (tt *TermTable) BOr(a, b *Term) *Term  { return tt.binBV(OBVOr, a, b) }
func (tt *TermTable) BXor(a, b *Term) *Term { return tt.binBV(OBVXor, a, b) }
func (tt *TermTable) Shl(a, b *Term) *Term  { return tt.binBV(OBVShl, a, b) }
func (tt *TermTable) LShr(a, b *Term) *Term { return tt.binBV(OBVLShr, a, b) }
func (tt *TermTable) AShr(a, b *Term) *Term { return tt.binBV(OBVAShr, a, b) }

func (tt *TermTable) BNot(a *Term) *Term {
	if a.IsConst() {
		return tt.BVC(a.Sort.W, ^a.C)
	}
	if a.Op == OBVNot {
		return a.Args[0]
	}
	return tt.mk(OBVNot, a.Sort, a)
}

func (tt *TermTable) Neg(a *Term) *Term {
	if a.IsConst() {
		return tt.BVC(a.Sort.W, -a.C)
	}
	return tt.mk(OBVNeg, a.Sort, a)
}

func (tt *TermTable) cmp(op Op, a, b *Term) *Term {
	if a.Sort != b.Sort {
		panic(fmt.Sprintf("cmp sort mismatch %v %v", a.Sort, b.Sort))
	}
	w := a.Sort.W
	if a.IsConst() && b.IsConst() {
		switch op {
		case OULT:
			return tt.BoolC(a.C < b.C)
		case OULE:
			return tt.BoolC(a.C <= b.C)
		case OSLT:
			return tt.BoolC(sext(a.C, w) < sext(b.C, w))
		case OSLE:
			return tt.BoolC(sext(a.C, w) <= sext(b.C, w))
		}
	}
	if a == b {
		return tt.BoolC(op == OULE || op == OSLE)
	}
	// trivial unsigned bounds
	if op == OULT && b.IsConst() && b.C == 0 {
		return tt.False
	}
	if op == OULE && a.IsConst() && a.C == 0 {
		return tt.True
	}
	// zero-extended values against constants: decide by range where possible
	if a.Op == OZeroExt && b.IsConst() {
		iw := a.Args[0].Sort.W
		max := mask(iw)
		switch op {
		case OULT:
			if b.C > max {
				return tt.True
			}
			return tt.cmp(OULT, a.Args[0], tt.BVC(iw, b.C))
		case OULE:
			if b.C >= max {
				return tt.True
			}
			return tt.cmp(OULE, a.Args[0], tt.BVC(iw, b.C))
		case OSLT, OSLE:
			sb := sext(b.C, w)
			if sb < 0 {
				return tt.False
			}
			if op == OSLT {
				return tt.cmp(OULT, a, b)
			}
			return tt.cmp(OULE, a, b)
		}
	}
	if b.Op == OZeroExt && a.IsConst() {
		iw := b.Args[0].Sort.W
		max := mask(iw)
		switch op {
		case OULT:
			if a.C >= max {
				return tt.False
			}
			return tt.cmp(OULT, tt.BVC(iw, a.C), b.Args[0])
		case OULE:
			if a.C > max {
				return tt.False
			}
			return tt.cmp(OULE, tt.BVC(iw, a.C), b.Args[0])
		case OSLT, OSLE:
			sa := sext(a.C, w)
			if sa < 0 {
				return tt.True
			}
			if op == OSLT {
				return tt.cmp(OULT, a, b)
			}
			return tt.cmp(OULE, a, b)
		}
	}
	return tt.mk(op, BoolSort, a, b)
}

func (tt *TermTable) ULT(a, b *Term) *Term { return tt.cmp(OULT, a, b) }
func (tt *TermTable) ULE(a, b *Term) *Term { return tt.cmp(OULE, a, b) }
func (tt *TermTable) SLT(a, b *Term) *Term { return tt.cmp(OSLT, a, b) }
func (tt *TermTable) SLE(a, b *Term) *Term { return tt.cmp(OSLE, a, b) }

func (tt *TermTable) Extract(a *Term, hi, lo int) *Term {
	w := hi - lo + 1
	if lo == 0 && w == a.Sort.W {
		return a
	}
	if a.IsConst() {
		return tt.BVC(w, a.C>>uint(lo))
	}
	if a.Op == OZeroExt || a.Op == OSignExt {
		iw := a.Args[0].Sort.W
		if hi < iw {
			return tt.Extract(a.Args[0], hi, lo)
		}
		if a.Op == OZeroExt && lo >= iw {
			return tt.BVC(w, 0)
		}
	}
	if a.Op == OConcat {
		lw := a.Args[1].Sort.W
		if hi < lw {
			return tt.Extract(a.Args[1], hi, lo)
		}
		if lo >= lw {
			return tt.Extract(a.Args[0], hi-lw, lo-lw)
		}
	}
	if a.Op == OExtract {
		return tt.Extract(a.Args[0], hi+a.P2, lo+a.P2)
	}
	return tt.mkP(OExtract, BV(w), hi, lo, a)
}

func (tt *TermTable) Concat(hi, lo *Term) *Term {
	w := hi.Sort.W + lo.Sort.W
	if hi.IsConst() && lo.IsConst() && w <= 64 {
		return tt.BVC(w, hi.C<<uint(lo.Sort.W)|lo.C)
	}
	if hi.IsConst() && hi.C == 0 && w <= 64 {
		return tt.ZeroExt(lo, w)
	}
	return tt.mk(OConcat, BV(w), hi, lo)
}

// ZeroExt / SignExt extend a to width w (w >= a.W); truncates if w < a.W.
func (tt *TermTable) ZeroExt(a *Term, w int) *Term {
	if w == a.Sort.W {
		return a
	}
	if w < a.Sort.W {
		return tt.Extract(a, w-1, 0)
	}
	if a.IsConst() {
		return tt.BVC(w, a.C)
	}
	if a.Op == OZeroExt {
		return tt.ZeroExt(a.Args[0], w)
	}
	return tt.mkP(OZeroExt, BV(w), w-a.Sort.W, 0, a)
}

func (tt *TermTable) SignExt(a *Term, w int) *Term {
	if w == a.Sort.W {
		return a
	}
	if w < a.Sort.W {
		return tt.Extract(a, w-1, 0)
	}
	if a.IsConst() {
		return tt.BVC(w, uint64(sext(a.C, a.Sort.W)))
	}
	if a.Op == OZeroExt {
		return tt.ZeroExt(a.Args[0], w)
	}
	return tt.mkP(OSignExt, BV(w), w-a.Sort.W, 0, a)
}

// ---- Floating point (minimal) ----

func (tt *TermTable) FPCmp(op Op, a, b *Term) *Term {
	if a.IsConst() && b.IsConst() {
		switch op {
		case OFPLt:
			return tt.BoolC(a.F < b.F)
		case OFPLe:
			return tt.BoolC(a.F <= b.F)
		case OFPEq:
			return tt.BoolC(a.F == b.F)
		}
	}
	return tt.mk(op, BoolSort, a, b)
}

func (tt *TermTable) FPArith(op Op, a, b *Term) *Term {
	if a.IsConst() && b.IsConst() {
		var r float64
		switch op {
		case OFPAdd:
			r = a.F + b.F
		case OFPSub:
			r = a.F - b.F
		case OFPMul:
			r = a.F * b.F
		case OFPDiv:
			r = a.F / b.F
		}
		return tt.FPC(a.Sort.W, r)
	}
	return tt.mk(op, a.Sort, a, b)
}

func (tt *TermTable) FPNeg(a *Term) *Term {
	if a.IsConst() {
		return tt.FPC(a.Sort.W, -a.F)
	}
	return tt.mk(OFPNeg, a.Sort, a)
}

func (tt *TermTable) FPIsNaN(a *Term) *Term {
	if a.IsConst() {
		return tt.BoolC(a.F != a.F)
	}
	return tt.mk(OFPIsNaN, BoolSort, a)
}

func (tt *TermTable) FPToBV(a *Term, w int, signed bool) *Term {
	op := OFPToUBV
	if signed {
		op = OFPToSBV
	}
	return tt.mkP(op, BV(w), w, 0, a)
}

func (tt *TermTable) BVToFP(a *Term, fw int, signed bool) *Term {
	if a.IsConst() {
		if signed {
			return tt.FPC(fw, float64(sext(a.C, a.Sort.W)))
		}
		return tt.FPC(fw, float64(a.C))
	}
	op := OUBVToFP
	if signed {
		op = OSBVToFP
	}
	return tt.mkP(op, FP(fw), fw, 0, a)
}

func (tt *TermTable) FPToFP(a *Term, fw int) *Term {
	if a.Sort.W == fw {
		return a
	}
	if a.IsConst() {
		return tt.FPC(fw, a.F)
	}
	return tt.mkP(OFPToFP, FP(fw), fw, 0, a)
}

type ufSig struct {
	Args []Sort
	Res  Sort
}

func (a ufSig) same(b ufSig) bool {
	if a.Res != b.Res || len(a.Args) != len(b.Args) {
		return false
	}
	for i := range a.Args {
		if a.Args[i] != b.Args[i] {
			return false
		}
	}
	return true
}

// UF application; all uses of one name must have identical arg sorts.
func (tt *TermTable) UF(name string, res Sort, args ...*Term) *Term {
	sig := ufSig{Res: res}
	for _, a := range args {
		sig.Args = append(sig.Args, a.Sort)
	}
	if old, ok := tt.ufs[name]; ok {
		if !old.same(sig) {
			panic("UF " + name + " used with different signatures")
		}
	} else {
		tt.ufs[name] = sig
	}
	return tt.intern(&Term{Op: OUF, Sort: res, Name: name, Args: args})
}

// ---------------------------------------------------------------------------
// Printing (SMT-LIB2). Two modes: bit-vector (default) and integer (BV sorts
// printed as Int in [0,2^w), explicit mod wrap) for multiply-heavy time arithmetic.

type Printer struct {
	IntMode bool
}

func pow2(w int) string {
	return new(big.Int).Lsh(big.NewInt(1), uint(w)).String()
}

func (p *Printer) SortStr(s Sort) string {
	if p.IntMode && s.K == KBV {
		return "Int"
	}
	return s.String()
}

func bvConst(w int, c uint64) string {
	if w%4 == 0 {
		return fmt.Sprintf("#x%0*x", w/4, c)
	}
	return fmt.Sprintf("#b%0*b", w, c)
}

func fpConst(w int, f float64) string {
	if w == 32 {
		b := math.Float32bits(float32(f))
		return fmt.Sprintf("(fp #b%b #b%08b #b%023b)", b>>31, (b>>23)&0xff, b&0x7fffff)
	}
	b := math.Float64bits(f)
	return fmt.Sprintf("(fp #b%b #b%011b #b%052b)", b>>63, (b>>52)&0x7ff, b&((1<<52)-1))
}

// signedInt renders the signed interpretation of an int-mode term string.
func signedInt(s string, w int) string {
	return "(ite (>= " + s + " " + pow2(w-1) + ") (- " + s + " " + pow2(w) + ") " + s + ")"
}

// Expr renders the node t given rendered names of its args.
func (p *Printer) Expr(t *Term, arg func(*Term) string) (string, error) {
	if p.IntMode {
		return p.exprInt(t, arg)
	}
	switch t.Op {
	case OConst:
		switch t.Sort.K {
		case KBool:
			if t.C == 1 {
				return "true", nil
			}
			return "false", nil
		case KBV:
			return bvConst(t.Sort.W, t.C), nil
		case KFP:
			return fpConst(t.Sort.W, t.F), nil
		}
	case OVar:
		return t.Name, nil
	case OExtract:
		return fmt.Sprintf("((_ extract %d %d) %s)", t.P1, t.P2, arg(t.Args[0])), nil
	case OZeroExt:
		return fmt.Sprintf("((_ zero_extend %d) %s)", t.P1, arg(t.Args[0])), nil
	case OSignExt:
		return fmt.Sprintf("((_ sign_extend %d) %s)", t.P1, arg(t.Args[0])), nil
	case OFPAdd, OFPSub, OFPMul, OFPDiv:
		n := map[Op]string{OFPAdd: "fp.add", OFPSub: "fp.sub", OFPMul: "fp.mul", OFPDiv: "fp.div"}[t.Op]
		return fmt.Sprintf("(%s RNE %s %s)", n, arg(t.Args[0]), arg(t.Args[1])), nil
	case OFPToSBV:
		return fmt.Sprintf("((_ fp.to_sbv %d) RTZ %s)", t.P1, arg(t.Args[0])), nil
	case OFPToUBV:
		return fmt.Sprintf("((_ fp.to_ubv %d) RTZ %s)", t.P1, arg(t.Args[0])), nil
	case OSBVToFP:
		return fmt.Sprintf("((_ to_fp %s) RNE %s)", fpExpSig(t.P1), arg(t.Args[0])), nil
	case OUBVToFP:
		return fmt.Sprintf("((_ to_fp_unsigned %s) RNE %s)", fpExpSig(t.P1), arg(t.Args[0])), nil
	case OFPToFP:
		return fmt.Sprintf("((_ to_fp %s) RNE %s)", fpExpSig(t.P1), arg(t.Args[0])), nil
	case OUF:
		if len(t.Args) == 0 {
			return t.Name, nil
		}
		var sb strings.Builder
		sb.WriteString("(" + t.Name)
		for _, a := range t.Args {
			sb.WriteByte(' ')
			sb.WriteString(arg(a))
		}
		sb.WriteByte(')')
		return sb.String(), nil
	}
	n, ok := opNames[t.Op]
	if !ok {
		return "", fmt.Errorf("printer: unknown op %d", t.Op)
	}
	var sb strings.Builder
	sb.WriteString("(" + n)
	for _, a := range t.Args {
		sb.WriteByte(' ')
		sb.WriteString(arg(a))
	}
	sb.WriteByte(')')
	return sb.String(), nil
}

func fpExpSig(w int) string {
	if w == 32 {
		return "8 24"
	}
	return "11 53"
}

func isPow2Mask(c uint64) (bits int, ok bool) { // c == 2^k - 1
	if c&(c+1) != 0 {
		return 0, false
	}
	n := 0
	for c != 0 {
		n++
		c >>= 1
	}
	return n, true
}

// intAndConst renders x & c for an int-mode term x (0 <= x < 2^w) as the sum over the runs of one-bits of c.
func intAndConst(x string, c uint64) string {
	if c == 0 {
		return "0"
	}
	var parts []string
	for lo := 0; lo < 64; {
		if c&(1<<uint(lo)) == 0 {
			lo++
			continue
		}
		hi := lo
		for hi+1 < 64 && c&(1<<uint(hi+1)) != 0 {
			hi++
		}
		// bits lo..hi
		s := x
		if lo > 0 {
			s = "(div " + s + " " + pow2(lo) + ")"
		}
		s = "(mod " + s + " " + pow2(hi-lo+1) + ")"
		if lo > 0 {
			s = "(* " + s + " " + pow2(lo) + ")"
		}
		parts = append(parts, s)
		lo = hi + 1
	}
	if len(parts) == 1 {
		return parts[0]
	}
	return "(+ " + strings.Join(parts, " ") + ")"
}

func (p *Printer) exprInt(t *Term, arg func(*Term) string) (string, error) {
	w := t.Sort.W
	M := func(s string, w int) string { return "(mod " + s + " " + pow2(w) + ")" }
	a := func(i int) string { return arg(t.Args[i]) }
	aw := func(i int) int { return t.Args[i].Sort.W }
	switch t.Op {
	case OConst:
		switch t.Sort.K {
		case KBool:
			if t.C == 1 {
				return "true", nil
			}
			return "false", nil
		case KBV:
			return strconv.FormatUint(t.C, 10), nil
		case KFP:
			return fpConst(t.Sort.W, t.F), nil
		}
	case OVar:
		return t.Name, nil
	case ONot, OAnd, OOr, OIte:
		var sb strings.Builder
		sb.WriteString("(" + opNames[t.Op])
		for _, x := range t.Args {
			sb.WriteByte(' ')
			sb.WriteString(arg(x))
		}
		sb.WriteByte(')')
		return sb.String(), nil
	case OEq:
		return "(= " + a(0) + " " + a(1) + ")", nil
	case OBVAdd:
		return M("(+ "+a(0)+" "+a(1)+")", w), nil
	case OBVSub:
		return M("(- "+a(0)+" "+a(1)+")", w), nil
	case OBVMul:
		return M("(* "+a(0)+" "+a(1)+")", w), nil
	case OBVNeg:
		return M("(- "+a(0)+")", w), nil
	case OBVNot:
		return "(- " + strconv.FormatUint(mask(w), 10) + " " + a(0) + ")", nil
	case OBVUDiv:
		return "(ite (= " + a(1) + " 0) " + strconv.FormatUint(mask(w), 10) + " (div " + a(0) + " " + a(1) + "))", nil
	case OBVURem:
		return "(ite (= " + a(1) + " 0) " + a(0) + " (mod " + a(0) + " " + a(1) + "))", nil
	case OBVSDiv, OBVSRem:
		x, y := signedInt(a(0), w), signedInt(a(1), w)
		// truncated division from SMT floor/euclid div
		ax, ay := "(abs "+x+")", "(abs "+y+")"
		if t.Op == OBVSDiv {
			q := "(div " + ax + " " + ay + ")"
			sq := "(ite (= (>= " + x + " 0) (>= " + y + " 0)) " + q + " (- " + q + "))"
			return "(ite (= " + a(1) + " 0) (ite (>= " + x + " 0) " + strconv.FormatUint(mask(w), 10) + " 1) " + M(sq, w) + ")", nil
		}
		r := "(mod " + ax + " " + ay + ")"
		sr := "(ite (>= " + x + " 0) " + r + " (- " + r + "))"
		return "(ite (= " + a(1) + " 0) " + a(0) + " " + M(sr, w) + ")", nil
	case OBVAnd:
		if t.Args[1].IsConst() {
			return intAndConst(a(0), t.Args[1].C), nil
		}
		return "", fmt.Errorf("int-mode: bvand of two symbolic operands")
	case OBVOr:
		if t.Args[1].IsConst() {
			// x | C = (x & ~C) + C
			c := t.Args[1].C
			return "(+ " + intAndConst(a(0), ^c&mask(w)) + " " + strconv.FormatUint(c, 10) + ")", nil
		}
		return "", fmt.Errorf("int-mode: bvor of two symbolic operands")
	case OBVXor:
		if t.Args[1].IsConst() {
			// x ^ C = (x & ~C) + (C - (x & C))
			c := t.Args[1].C
			return "(+ " + intAndConst(a(0), ^c&mask(w)) + " (- " + strconv.FormatUint(c, 10) + " " + intAndConst(a(0), c) + "))", nil
		}
		return "", fmt.Errorf("int-mode: bvxor of two symbolic operands")
	case OBVShl:
		if t.Args[1].IsConst() {
			k := int(t.Args[1].C)
			if k >= w {
				return "0", nil
			}
			return M("(* "+a(0)+" "+pow2(k)+")", w), nil
		}
		return "", fmt.Errorf("int-mode: symbolic shift amount")
	case OBVLShr:
		if t.Args[1].IsConst() {
			k := int(t.Args[1].C)
			if k >= w {
				return "0", nil
			}
			return "(div " + a(0) + " " + pow2(k) + ")", nil
		}
		return "", fmt.Errorf("int-mode: symbolic shift amount")
	case OBVAShr:
		if t.Args[1].IsConst() {
			k := int(t.Args[1].C)
			if k >= w {
				k = w - 1
			}
			return M("(div "+signedInt(a(0), w)+" "+pow2(k)+")", w), nil
		}
		return "", fmt.Errorf("int-mode: symbolic shift amount")
	case OULT:
		return "(< " + a(0) + " " + a(1) + ")", nil
	case OULE:
		return "(<= " + a(0) + " " + a(1) + ")", nil
	case OSLT:
		return "(< " + signedInt(a(0), aw(0)) + " " + signedInt(a(1), aw(1)) + ")", nil
	case OSLE:
		return "(<= " + signedInt(a(0), aw(0)) + " " + signedInt(a(1), aw(1)) + ")", nil
	case OExtract:
		s := a(0)
		if t.P2 > 0 {
			s = "(div " + s + " " + pow2(t.P2) + ")"
		}
		return "(mod " + s + " " + pow2(t.P1-t.P2+1) + ")", nil
	case OConcat:
		return "(+ (* " + a(0) + " " + pow2(aw(1)) + ") " + a(1) + ")", nil
	case OZeroExt:
		return a(0), nil
	case OSignExt:
		return M(signedInt(a(0), aw(0)), w), nil
	case OUF:
		if len(t.Args) == 0 {
			return t.Name, nil
		}
		var sb strings.Builder
		sb.WriteString("(" + t.Name)
		for _, x := range t.Args {
			sb.WriteByte(' ')
			sb.WriteString(arg(x))
		}
		sb.WriteByte(')')
		return sb.String(), nil
	}
	return "", fmt.Errorf("int-mode: unsupported op %v", opNames[t.Op])
}

// VarRange returns the range constraint needed for a BV var in int mode.
func (p *Printer) VarRange(t *Term) string {
	if p.IntMode && t.Sort.K == KBV {
		return "(and (>= " + t.Name + " 0) (< " + t.Name + " " + pow2(t.Sort.W) + "))"
	}
	return ""
}

// Debug rendering (full expansion, for samples); not used for solving.
func (t *Term) String() string {
	p := &Printer{}
	var rec func(*Term, int) string
	rec = func(x *Term, d int) string {
		if d > 6 && len(x.Args) > 0 {
			return "…"
		}
		s, err := p.Expr(x, func(a *Term) string { return rec(a, d+1) })
		if err != nil {
			return "<" + err.Error() + ">"
		}
		return s
	}
	return rec(t, 0)
}

// Vars returns the free variables of t, sorted by name.
func Vars(ts ...*Term) []*Term {
	seen := map[int]bool{}
	var out []*Term
	var rec func(*Term)
	rec = func(x *Term) {
		if seen[x.id] {
			return
		}
		seen[x.id] = true
		if x.Op == OVar {
			out = append(out, x)
		}
		for _, a := range x.Args {
			rec(a)
		}
	}
	for _, t := range ts {
		rec(t)
	}
	sort.Slice(out, func(i, j int) bool { return out[i].Name < out[j].Name })
	return out
}
