package symgo

import (
	"fmt"
	"go/constant"
	"go/token"
	"go/types"
	"unicode/utf8"

	"golang.org/x/tools/go/ssa"
)

func constantString(c *ssa.Const) string {
	if c.Value.Kind() == constant.String {
		return constant.StringVal(c.Value)
	}
	return string(rune(c.Int64()))
}

func constantBool(c *ssa.Const) bool { return constant.BoolVal(c.Value) }

// ---------------------------------------------------------------------------

func (p *Path) binop(op token.Token, tx, ty types.Type, x, y Value) Value {
	w := p.w
	tt := w.tt
	switch op {
	case token.EQL:
		return p.eqOp(tx, ty, x, y)
	case token.NEQ:
		return tt.Not(p.eqOp(tx, ty, x, y))
	}
	switch xv := x.(type) {
	case Str:
		yv := y.(Str)
		switch op {
		case token.ADD:
			return w.strConcat(xv, yv)
		case token.LSS:
			return w.strLess(xv, yv, false)
		case token.LEQ:
			return w.strLess(xv, yv, true)
		case token.GTR:
			return w.strLess(yv, xv, false)
		case token.GEQ:
			return w.strLess(yv, xv, true)
		}
	case *Term:
		yv := y.(*Term)
		switch xv.Sort.K {
		case KBool:
			switch op {
			case token.LAND, token.AND:
				return tt.And(xv, yv)
			case token.LOR, token.OR:
				return tt.Or(xv, yv)
			}
		case KFP:
			switch op {
			case token.ADD:
				return tt.FPArith(OFPAdd, xv, yv)
			case token.SUB:
				return tt.FPArith(OFPSub, xv, yv)
			case token.MUL:
				return tt.FPArith(OFPMul, xv, yv)
			case token.QUO:
				return tt.FPArith(OFPDiv, xv, yv)
			case token.LSS:
				return tt.FPCmp(OFPLt, xv, yv)
			case token.LEQ:
				return tt.FPCmp(OFPLe, xv, yv)
			case token.GTR:
				return tt.FPCmp(OFPLt, yv, xv)
			case token.GEQ:
				return tt.FPCmp(OFPLe, yv, xv)
			}
		case KBV:
			signed := isSigned(tx)
			wd := xv.Sort.W
			switch op {
			case token.ADD:
				return tt.Add(xv, yv)
			case token.SUB:
				return tt.Sub(xv, yv)
			case token.MUL:
				return tt.Mul(xv, yv)
			case token.QUO, token.REM:
				p.check(tt.Not(tt.Eq(yv, tt.BVC(wd, 0))), "integer divide by zero")
				if signed {
					if op == token.QUO {
						return tt.SDiv(xv, yv)
					}
					return tt.SRem(xv, yv)
				}
				if op == token.QUO {
					return tt.UDiv(xv, yv)
				}
				return tt.URem(xv, yv)
			case token.AND:
				return tt.BAnd(xv, yv)
			case token.OR:
				return tt.BOr(xv, yv)
			case token.XOR:
				return tt.BXor(xv, yv)
			case token.AND_NOT:
				return tt.BAnd(xv, tt.BNot(yv))
			case token.SHL, token.SHR:
				amt := p.shiftAmount(yv, ty, wd)
				if op == token.SHL {
					return tt.Shl(xv, amt)
				}
				if signed {
					return tt.AShr(xv, amt)
				}
				return tt.LShr(xv, amt)
			case token.LSS:
				if signed {
					return tt.SLT(xv, yv)
				}
				return tt.ULT(xv, yv)
			case token.LEQ:
				if signed {
					return tt.SLE(xv, yv)
				}
				return tt.ULE(xv, yv)
			case token.GTR:
				if signed {
					return tt.SLT(yv, xv)
				}
				return tt.ULT(yv, xv)
			case token.GEQ:
				if signed {
					return tt.SLE(yv, xv)
				}
				return tt.ULE(yv, xv)
			}
		}
	case unsupportedValue:
		p.unsupported("%s", xv.why)
	}
	panic(fmt.Sprintf("invalid binary op: %T %s %T", x, op, y))
}

// shiftAmount converts shift count y (type ty) to width wd, saturating at wd,
// and raising the Go panic for negative signed counts.
func (p *Path) shiftAmount(y *Term, ty types.Type, wd int) *Term {
	tt := p.w.tt
	yw := y.Sort.W
	if isSigned(ty) {
		p.check(tt.SLE(tt.BVC(yw, 0), y), "negative shift amount")
	}
	if yw == wd {
		return y
	}
	if yw < wd {
		return tt.ZeroExt(y, wd)
	}
	// yw > wd: saturate then truncate
	big := tt.ULE(tt.BVC(yw, uint64(wd)), y)
	return tt.Ite(big, tt.BVC(wd, uint64(wd)), tt.Extract(y, wd-1, 0))
}

func (p *Path) eqOp(tx, ty types.Type, x, y Value) *Term {
	w := p.w
	// comparisons with nil slices / funcs / maps, and interface vs concrete are typed identically in SSA
	switch xv := x.(type) {
	case Slice:
		// only x == nil
		ys, _ := y.(Slice)
		if xv == nil && ys == nil {
			return w.tt.True
		}
		if xv == nil || ys == nil {
			return w.tt.False
		}
		panic("slice comparison")
	case *ssa.Function, *Closure, *ssa.Builtin:
		return w.tt.BoolC(isNilFunc(x) == isNilFunc(y) && isNilFunc(x))
	}
	return w.equals(tx, x, y)
}

func (fr *frame) unop(instr *ssa.UnOp, x Value) Value {
	p := fr.p
	tt := p.w.tt
	switch instr.Op {
	case token.ARROW:
		return p.chanRecv(x.(*Chan), instr.CommaOk, instr.Type())
	case token.MUL:
		if ref, ok := x.(symElemRef); ok {
			return p.iteTable(ref.idx, ref.elems)
		}
		addr := x.(*Value)
		if addr == nil {
			panic(runtimePanic("nil pointer dereference"))
		}
		return load(deref(instr.X.Type()), addr)
	case token.SUB:
		t := x.(*Term)
		if t.Sort.K == KFP {
			return tt.FPNeg(t)
		}
		return tt.Neg(t)
	case token.NOT:
		return tt.Not(x.(*Term))
	case token.XOR:
		return tt.BNot(x.(*Term))
	}
	panic(fmt.Sprintf("invalid unary op %s %T", instr.Op, x))
}

func (fr *frame) typeAssert(instr *ssa.TypeAssert, itf Iface) Value {
	w := fr.w
	var v Value
	err := ""
	if itf.T == nil {
		err = fmt.Sprintf("interface conversion: interface is nil, not %s", instr.AssertedType)
	} else if idst, ok := instr.AssertedType.Underlying().(*types.Interface); ok {
		v = itf
		if m, _ := types.MissingMethod(itf.T, idst, true); m != nil {
			err = fmt.Sprintf("interface conversion: %v is not %v: missing method %s", itf.T, idst, m.Name())
		}
	} else if types.Identical(itf.T, instr.AssertedType) {
		v = itf.V
	} else {
		err = fmt.Sprintf("interface conversion: interface is %s, not %s", itf.T, instr.AssertedType)
	}
	if err != "" {
		if !instr.CommaOk {
			panic(runtimePanic(err))
		}
		return Tuple{w.zero(instr.AssertedType), w.tt.False}
	}
	if instr.CommaOk {
		return Tuple{v, w.tt.True}
	}
	return v
}

func (p *Path) lookup(instr *ssa.Lookup, x, idx Value) Value {
	w := p.w
	switch x := x.(type) {
	case *Map:
		var v Value
		ok := false
		if e := p.mapFind(x, idx); e != nil {
			v = copyVal(e.v)
			ok = true
		} else {
			v = w.zero(instr.X.Type().Underlying().(*types.Map).Elem())
		}
		if instr.CommaOk {
			return Tuple{v, w.tt.BoolC(ok)}
		}
		return v
	case Str:
		i := idx.(*Term)
		if i.IsConst() {
			return w.strByte(x, p.boundedIndex(i, instr.Index.Type(), x.Len()))
		}
		bs := w.strBytes(x)
		vs := make([]Value, len(bs))
		for k, b := range bs {
			vs[k] = b
		}
		return p.indexRead(i, instr.Index.Type(), vs)
	}
	panic(fmt.Sprintf("unexpected x type in Lookup: %T", x))
}

func (p *Path) sliceOp(instr *ssa.Slice, x, lo, hi, max Value) Value {
	w := p.w
	var Len, Cap int
	switch x := x.(type) {
	case Str:
		Len = x.Len()
		Cap = Len
	case Slice:
		Len = len(x)
		Cap = cap(x)
	case *Value:
		if x == nil {
			panic(runtimePanic("nil pointer dereference (slice of nil array pointer)"))
		}
		a := (*x).(Array)
		Len = len(a)
		Cap = Len
	}
	bound := func(v Value, def int) *Term {
		if v == nil {
			return w.tt.BVC(64, uint64(def))
		}
		return v.(*Term)
	}
	tt := w.tt
	l := bound(lo, 0)
	h := bound(hi, Len)
	m := bound(max, Cap)
	if l.Sort.W != 64 {
		l = tt.SignExt(l, 64)
	}
	if h.Sort.W != 64 {
		h = tt.SignExt(h, 64)
	}
	if m.Sort.W != 64 {
		m = tt.SignExt(m, 64)
	}
	// 0 <= l <= h <= m <= cap   (for strings h <= len)
	capT := tt.BVC(64, uint64(Cap))
	ok := tt.And(tt.ULE(l, h), tt.ULE(h, m), tt.ULE(m, capT))
	if !ok.IsTrue() {
		p.check(ok, "slice bounds out of range")
	}
	li := int(p.concInt(l))
	hiI := int(p.concInt(h))
	mi := int(p.concInt(m))
	switch x := x.(type) {
	case Str:
		return w.strSlice(x, li, hiI)
	case Slice:
		if x == nil {
			return Slice(nil)
		}
		return x[li:hiI:mi]
	case *Value:
		a := (*x).(Array)
		return Slice(a)[li:hiI:mi]
	}
	panic(fmt.Sprintf("slice: unexpected X type: %T", x))
}

// ---------------------------------------------------------------------------
// Conversions

func (p *Path) conv(tdst, tsrc types.Type, x Value) Value {
	w := p.w
	tt := w.tt
	ud := tdst.Underlying()
	us := tsrc.Underlying()
	if uv, ok := x.(unsupportedValue); ok {
		p.unsupported("%s", uv.why)
	}
	switch ud := ud.(type) {
	case *types.Pointer:
		switch x := x.(type) {
		case *Value:
			return x
		case UnsafePtr:
			if x.P == nil {
				return (*Value)(nil)
			}
			if pv, ok := x.P.(*Value); ok {
				return pv
			}
		}
		p.unsupported("conversion %v -> %v", tsrc, tdst)
	case *types.Slice:
		switch xv := x.(type) {
		case Slice:
			return xv
		case Str:
			if b, ok := ud.Elem().Underlying().(*types.Basic); ok {
				switch b.Kind() {
				case types.Uint8:
					bs := w.strBytes(xv)
					out := make(Slice, len(bs))
					for i, t := range bs {
						out[i] = t
					}
					return out
				case types.Int32:
					var out Slice = Slice{}
					for i := 0; i < xv.Len(); {
						r, sz := p.decodeRune(xv, i)
						out = append(out, r)
						i += sz
					}
					return out
				}
			}
		}
	case *types.Basic:
		if ud.Kind() == types.UnsafePointer {
			switch xv := x.(type) {
			case UnsafePtr:
				return xv
			case *Value:
				if xv == nil {
					return UnsafePtr{}
				}
				return UnsafePtr{P: xv}
			case *Term: // uintptr -> unsafe.Pointer
				if xv.IsConst() && xv.C == 0 {
					return UnsafePtr{}
				}
				p.unsupported("uintptr -> unsafe.Pointer")
			}
		}
		if ud.Info()&types.IsString != 0 {
			switch xv := x.(type) {
			case Str:
				return xv
			case *Term: // string(rune)
				return p.runeToString(xv, tsrc)
			case Slice:
				et := us.(*types.Slice).Elem().Underlying().(*types.Basic)
				if et.Kind() == types.Uint8 {
					bs := make([]*Term, len(xv))
					for i, v := range xv {
						bs[i] = v.(*Term)
					}
					return mkStr(bs)
				}
				// []rune -> string
				res := Str{}
				for _, v := range xv {
					res = w.strConcat(res, p.runeToString(v.(*Term), types.Typ[types.Int32]))
				}
				return res
			}
		}
		if t, ok := x.(*Term); ok {
			ds, ok2 := basicSort(ud)
			if !ok2 {
				if ud.Info()&types.IsComplex != 0 {
					p.unsupported("complex conversion")
				}
				break
			}
			switch {
			case t.Sort.K == KBV && ds.K == KBV:
				if ds.W <= t.Sort.W {
					return tt.Extract(t, ds.W-1, 0)
				}
				if isSigned(tsrc) {
					return tt.SignExt(t, ds.W)
				}
				return tt.ZeroExt(t, ds.W)
			case t.Sort.K == KBV && ds.K == KFP:
				return tt.BVToFP(t, ds.W, isSigned(tsrc))
			case t.Sort.K == KFP && ds.K == KBV:
				if t.IsConst() {
					f := t.F
					if isSigned(tdst) {
						return tt.BVC(ds.W, uint64(int64(f)))
					}
					if f >= 0 {
						return tt.BVC(ds.W, uint64(f))
					}
					return tt.BVC(ds.W, uint64(int64(f)))
				}
				return tt.FPToBV(t, ds.W, isSigned(tdst))
			case t.Sort.K == KFP && ds.K == KFP:
				return tt.FPToFP(t, ds.W)
			case t.Sort.K == KBool && ds.K == KBool:
				return t
			}
		}
		if up, ok := x.(UnsafePtr); ok && ud.Kind() == types.Uintptr {
			if up.P == nil {
				return tt.BVC(64, 0)
			}
			p.unsupported("unsafe.Pointer -> uintptr")
		}
	case *types.Signature, *types.Map, *types.Chan, *types.Interface, *types.Struct, *types.Array:
		return x
	}
	p.unsupported("conversion %v (%T) -> %v", tsrc, x, tdst)
	return nil
}

// runeToString encodes a rune as UTF-8; symbolic runes fork on the size class.
func (p *Path) runeToString(r *Term, tsrc types.Type) Str {
	tt := p.w.tt
	if r.IsConst() {
		var v int64
		if isSigned(tsrc) {
			v = sext(r.C, r.Sort.W)
		} else {
			v = int64(r.C)
		}
		if v < 0 || v > utf8.MaxRune {
			return Str{S: "�"}
		}
		return Str{S: string(rune(v))}
	}
	r32 := r
	if r.Sort.W > 32 {
		// out-of-range => RuneError
		inRange := tt.ULE(r, tt.BVC(r.Sort.W, utf8.MaxRune))
		if !p.branch(inRange) {
			return Str{S: "�"}
		}
		r32 = tt.Extract(r, 31, 0)
	} else if r.Sort.W < 32 {
		if isSigned(tsrc) {
			r32 = tt.SignExt(r, 32)
		} else {
			r32 = tt.ZeroExt(r, 32)
		}
	}
	c := func(v uint64) *Term { return tt.BVC(32, v) }
	b8 := func(t *Term) *Term { return tt.Extract(t, 7, 0) }
	if p.branch(tt.ULT(r32, c(0x80))) {
		return Str{B: []*Term{b8(r32)}}
	}
	if p.branch(tt.ULT(r32, c(0x800))) {
		return Str{B: []*Term{
			b8(tt.BOr(c(0xC0), tt.LShr(r32, c(6)))),
			b8(tt.BOr(c(0x80), tt.BAnd(r32, c(0x3F)))),
		}}
	}
	surr := tt.And(tt.ULE(c(0xD800), r32), tt.ULE(r32, c(0xDFFF)))
	if p.branch(tt.Or(surr, tt.ULT(c(utf8.MaxRune), r32))) {
		return Str{S: "�"}
	}
	if p.branch(tt.ULT(r32, c(0x10000))) {
		return Str{B: []*Term{
			b8(tt.BOr(c(0xE0), tt.LShr(r32, c(12)))),
			b8(tt.BOr(c(0x80), tt.BAnd(tt.LShr(r32, c(6)), c(0x3F)))),
			b8(tt.BOr(c(0x80), tt.BAnd(r32, c(0x3F)))),
		}}
	}
	return Str{B: []*Term{
		b8(tt.BOr(c(0xF0), tt.LShr(r32, c(18)))),
		b8(tt.BOr(c(0x80), tt.BAnd(tt.LShr(r32, c(12)), c(0x3F)))),
		b8(tt.BOr(c(0x80), tt.BAnd(tt.LShr(r32, c(6)), c(0x3F)))),
		b8(tt.BOr(c(0x80), tt.BAnd(r32, c(0x3F)))),
	}}
}

// decodeRune decodes the UTF-8 sequence at s[i:], forking on byte classes when
// symbolic. Semantics follow runtime.decoderune / utf8.DecodeRuneInString.
func (p *Path) decodeRune(s Str, i int) (*Term, int) {
	w := p.w
	tt := w.tt
	n := s.Len() - i
	if s.B == nil || s.IsConc() {
		var str string
		if s.B == nil {
			str = s.S
		} else {
			str = s.Conc()
		}
		r, sz := utf8.DecodeRuneInString(str[i:])
		return tt.BVC(32, uint64(r)), sz
	}
	b := func(k int) *Term { return w.strByte(s, i+k) }
	c8 := func(v uint64) *Term { return tt.BVC(8, v) }
	z32 := func(t *Term) *Term { return tt.ZeroExt(t, 32) }
	c32 := func(v uint64) *Term { return tt.BVC(32, v) }
	rerr := tt.BVC(32, utf8.RuneError)
	b0 := b(0)
	if p.branch(tt.ULT(b0, c8(0x80))) {
		return z32(b0), 1
	}
	inr := func(t *Term, lo, hi uint64) *Term { return tt.And(tt.ULE(c8(lo), t), tt.ULE(t, c8(hi))) }
	// two-byte
	if p.branch(inr(b0, 0xC2, 0xDF)) {
		if n < 2 || !p.branch(inr(b(1), 0x80, 0xBF)) {
			return rerr, 1
		}
		r := tt.BOr(tt.Shl(z32(tt.BAnd(b0, c8(0x1F))), c32(6)), z32(tt.BAnd(b(1), c8(0x3F))))
		return r, 2
	}
	if p.branch(inr(b0, 0xE0, 0xEF)) {
		if n < 3 {
			return rerr, 1
		}
		lo, hi := uint64(0x80), uint64(0xBF)
		if p.branch(tt.Eq(b0, c8(0xE0))) {
			lo = 0xA0
		} else if p.branch(tt.Eq(b0, c8(0xED))) {
			hi = 0x9F
		}
		if !p.branch(inr(b(1), lo, hi)) || !p.branch(inr(b(2), 0x80, 0xBF)) {
			return rerr, 1
		}
		r := tt.BOr(tt.BOr(tt.Shl(z32(tt.BAnd(b0, c8(0x0F))), c32(12)),
			tt.Shl(z32(tt.BAnd(b(1), c8(0x3F))), c32(6))), z32(tt.BAnd(b(2), c8(0x3F))))
		return r, 3
	}
	if p.branch(inr(b0, 0xF0, 0xF4)) {
		if n < 4 {
			return rerr, 1
		}
		lo, hi := uint64(0x80), uint64(0xBF)
		if p.branch(tt.Eq(b0, c8(0xF0))) {
			lo = 0x90
		} else if p.branch(tt.Eq(b0, c8(0xF4))) {
			hi = 0x8F
		}
		if !p.branch(inr(b(1), lo, hi)) || !p.branch(inr(b(2), 0x80, 0xBF)) || !p.branch(inr(b(3), 0x80, 0xBF)) {
			return rerr, 1
		}
		r := tt.BOr(tt.BOr(tt.BOr(tt.Shl(z32(tt.BAnd(b0, c8(0x07))), c32(18)),
			tt.Shl(z32(tt.BAnd(b(1), c8(0x3F))), c32(12))),
			tt.Shl(z32(tt.BAnd(b(2), c8(0x3F))), c32(6))), z32(tt.BAnd(b(3), c8(0x3F))))
		return r, 4
	}
	return rerr, 1
}

// ---------------------------------------------------------------------------
// Builtins

func (w *Worker) callBuiltin(caller *frame, callpos token.Pos, fn *ssa.Builtin, args []Value) Value {
	p := w.path
	tt := w.tt
	switch fn.Name() {
	case "append":
		if len(args) == 1 {
			return args[0]
		}
		if s, ok := args[1].(Str); ok {
			bs := w.strBytes(s)
			out := args[0].(Slice)
			for _, b := range bs {
				out = append(out, b)
			}
			return out
		}
		a0 := args[0].(Slice)
		a1 := args[1].(Slice)
		if len(a1) == 0 {
			return a0
		}
		for _, e := range a1 {
			a0 = append(a0, copyVal(e))
		}
		return a0

	case "copy":
		dst := args[0].(Slice)
		if s, ok := args[1].(Str); ok {
			bs := w.strBytes(s)
			n := len(bs)
			if len(dst) < n {
				n = len(dst)
			}
			for i := 0; i < n; i++ {
				p.setCell(&dst[i], bs[i])
			}
			return tt.BVC(64, uint64(n))
		}
		src := args[1].(Slice)
		n := len(src)
		if len(dst) < n {
			n = len(dst)
		}
		// handle overlap like memmove
		tmp := make([]Value, n)
		for i := 0; i < n; i++ {
			tmp[i] = copyVal(src[i])
		}
		for i := 0; i < n; i++ {
			p.setCell(&dst[i], tmp[i])
		}
		return tt.BVC(64, uint64(n))

	case "close":
		ch := args[0].(*Chan)
		if ch == nil {
			panic(runtimePanic("close of nil channel"))
		}
		if ch.closed {
			panic(runtimePanic("close of closed channel"))
		}
		ch.closed = true
		return nil

	case "delete":
		p.mapDelete(args[0].(*Map), args[1])
		return nil

	case "print", "println":
		return nil

	case "len":
		switch x := args[0].(type) {
		case Str:
			return tt.BVC(64, uint64(x.Len()))
		case Array:
			return tt.BVC(64, uint64(len(x)))
		case *Value:
			if x == nil {
				// len of nil *array is the array length; type needed
				p.unsupported("len(nil *array)")
			}
			return tt.BVC(64, uint64(len((*x).(Array))))
		case Slice:
			return tt.BVC(64, uint64(len(x)))
		case *Map:
			if x == nil {
				return tt.BVC(64, 0)
			}
			return tt.BVC(64, uint64(x.Len()))
		case *Chan:
			if x == nil {
				return tt.BVC(64, 0)
			}
			return tt.BVC(64, uint64(len(x.buf)))
		}
		panic(fmt.Sprintf("len: illegal operand: %T", args[0]))

	case "cap":
		switch x := args[0].(type) {
		case Array:
			return tt.BVC(64, uint64(len(x)))
		case *Value:
			return tt.BVC(64, uint64(len((*x).(Array))))
		case Slice:
			return tt.BVC(64, uint64(cap(x)))
		case *Chan:
			if x == nil {
				return tt.BVC(64, 0)
			}
			return tt.BVC(64, uint64(x.cap))
		}
		panic(fmt.Sprintf("cap: illegal operand: %T", args[0]))

	case "min", "max":
		res := args[0]
		for _, a := range args[1:] {
			var less *Term
			typ := fn.Type().(*types.Signature).Params().At(0).Type()
			if fn.Name() == "min" {
				less = p.binop(token.LSS, typ, typ, a, res).(*Term)
			} else {
				less = p.binop(token.GTR, typ, typ, a, res).(*Term)
			}
			switch r := res.(type) {
			case *Term:
				res = tt.Ite(less, a.(*Term), r)
			default:
				if p.branch(less) {
					res = a
				}
			}
		}
		return res

	case "clear":
		switch x := args[0].(type) {
		case *Map:
			if x != nil {
				for _, e := range x.entries {
					e.deleted = true
				}
				x.n, x.nsym = 0, 0
				x.index = map[string]int{}
			}
		case Slice:
			et := fn.Type().(*types.Signature).Params().At(0).Type().Underlying().(*types.Slice).Elem()
			for i := range x {
				x[i] = w.zero(et)
			}
		}
		return nil

	case "panic":
		panic(targetPanic{v: args[0], site: caller.fn.String()})

	case "recover":
		return doRecover(caller)

	case "ssa:wrapnilchk":
		recv := args[0]
		if pv, ok := recv.(*Value); ok && pv == nil {
			recvType := args[1].(Str).Conc()
			methodName := args[2].(Str).Conc()
			panic(runtimePanic(fmt.Sprintf("value method %s.%s called using nil *%s pointer", recvType, methodName, recvType)))
		}
		return recv

	case "ssa:deferstack":
		return &caller.defers

	case "String": // unsafe.String(ptr *byte, len)
		n := int(p.concInt(args[1].(*Term)))
		ptr, _ := args[0].(*Value)
		if n == 0 {
			return Str{}
		}
		if ref, ok := p.elemOrigin[ptr]; ok && ref.i+n <= cap(ref.s) {
			return mkStr(sliceBytes(ref.s[ref.i : ref.i+n : ref.i+n]))
		}
		p.unsupported("unsafe.String of an untracked pointer")

	case "StringData": // unsafe.StringData(s) *byte
		s := args[0].(Str)
		if s.Len() == 0 {
			return (*Value)(nil)
		}
		bs := w.strBytes(s)
		sl := make(Slice, len(bs))
		for i, b := range bs {
			sl[i] = b
		}
		p.noteElem(&sl[0], sl, 0)
		return &sl[0]

	case "Slice": // unsafe.Slice(ptr *T, len)
		n := int(p.concInt(args[1].(*Term)))
		ptr, _ := args[0].(*Value)
		if ptr == nil {
			return Slice(nil)
		}
		if ref, ok := p.elemOrigin[ptr]; ok && ref.i+n <= cap(ref.s) {
			return ref.s[ref.i : ref.i+n : ref.i+n]
		}
		p.unsupported("unsafe.Slice of an untracked pointer")

	case "SliceData": // unsafe.SliceData(s) *T
		sl := args[0].(Slice)
		if cap(sl) == 0 {
			return (*Value)(nil)
		}
		full := sl[:1]
		p.noteElem(&full[0], sl[:cap(sl)], 0)
		return &full[0]
	}
	p.unsupported("builtin %s", fn.Name())
	return nil
}

// ---------------------------------------------------------------------------
// Channels (minimal: buffered, single-goroutine non-blocking semantics)

func (p *Path) chanSend(ch *Chan, v Value) {
	if ch == nil {
		p.unsupported("send on nil channel (blocks forever)")
	}
	if ch.closed {
		panic(runtimePanic("send on closed channel"))
	}
	if len(ch.buf) >= ch.cap {
		if p.gor != nil {
			p.blockUntil(func() bool { return len(ch.buf) < ch.cap || ch.closed }, "chan send")
			if ch.closed {
				panic(runtimePanic("send on closed channel"))
			}
		} else {
			// unbuffered/ full channel with a single goroutine: treat as buffered hand-off
			p.unsupported("send would block (channel full, no other goroutine)")
		}
	}
	ch.buf = append(ch.buf, copyVal(v))
}

func (p *Path) chanRecv(ch *Chan, commaOk bool, t types.Type) Value {
	w := p.w
	if ch == nil {
		p.unsupported("receive from nil channel (blocks forever)")
	}
	var et types.Type
	if commaOk {
		et = t.(*types.Tuple).At(0).Type()
	} else {
		et = t
	}
	if len(ch.buf) == 0 && !ch.closed {
		if p.gor != nil {
			p.blockUntil(func() bool { return len(ch.buf) > 0 || ch.closed }, "chan recv")
		} else {
			p.unsupported("receive would block (no other goroutine)")
		}
	}
	if len(ch.buf) > 0 {
		v := ch.buf[0]
		ch.buf = ch.buf[1:]
		if commaOk {
			return Tuple{v, w.tt.True}
		}
		return v
	}
	z := w.zero(et)
	if commaOk {
		return Tuple{z, w.tt.False}
	}
	return z
}

func (p *Path) selectOp(instr *ssa.Select, fr *frame) Value {
	w := p.w
	tt := w.tt
	ready := -1
	for i, st := range instr.States {
		ch, _ := fr.get(st.Chan).(*Chan)
		if ch == nil {
			continue
		}
		if st.Dir == types.RecvOnly {
			if len(ch.buf) > 0 || ch.closed {
				ready = i
				break
			}
		} else {
			if len(ch.buf) < ch.cap && !ch.closed {
				ready = i
				break
			}
		}
	}
	if ready < 0 && instr.Blocking {
		p.unsupported("blocking select with no ready case")
	}
	r := Tuple{tt.BVC(64, uint64(int64(ready))), tt.False}
	for i, st := range instr.States {
		if i == ready {
			ch := fr.get(st.Chan).(*Chan)
			if st.Dir == types.RecvOnly {
				et := st.Chan.Type().Underlying().(*types.Chan).Elem()
				v := p.chanRecv(ch, true, types.NewTuple(types.NewVar(0, nil, "", et), types.NewVar(0, nil, "", types.Typ[types.Bool]))).(Tuple)
				r[1] = v[1]
				r = append(r, v[0])
			} else {
				p.chanSend(ch, fr.get(st.Send))
			}
		} else if st.Dir == types.RecvOnly {
			r = append(r, w.zero(st.Chan.Type().Underlying().(*types.Chan).Elem()))
		}
	}
	return r
}

// iteTable builds elems[idx] as an ite chain over runs of equal consecutive elements
// (lookup tables such as utf8.first have few distinct runs), idx already bounds-checked.
func (p *Path) iteTable(idx *Term, elems []Value) *Term {
	tt := p.w.tt
	n := len(elems)
	type run struct {
		lo, hi int
		v      *Term
	}
	var runs []run
	for i := 0; i < n; i++ {
		t := elems[i].(*Term)
		if len(runs) > 0 && runs[len(runs)-1].v == t {
			runs[len(runs)-1].hi = i
		} else {
			runs = append(runs, run{i, i, t})
		}
	}
	res := runs[len(runs)-1].v
	for k := len(runs) - 2; k >= 0; k-- {
		r := runs[k]
		var c *Term
		if r.lo == r.hi {
			c = tt.Eq(idx, tt.BVC(64, uint64(r.lo)))
		} else if r.lo == 0 {
			c = tt.ULE(idx, tt.BVC(64, uint64(r.hi)))
		} else {
			c = tt.And(tt.ULE(tt.BVC(64, uint64(r.lo)), idx), tt.ULE(idx, tt.BVC(64, uint64(r.hi))))
		}
		res = tt.Ite(c, r.v, res)
	}
	return res
}
