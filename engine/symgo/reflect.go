package symgo

import (
	"fmt"
	"go/token"
	"go/types"
	"reflect"
)

// Minimal reflection: reflect(lite).TypeOf yields an interface value whose
// dynamic type is the marker rtypeT; method calls on it are implemented here.

var rtypeT = types.NewNamed(types.NewTypeName(token.NoPos, nil, "symgo.rtype", nil), types.NewStruct(nil, nil), nil)

type rtypeMethod struct{ name string }

func reflectKind(t types.Type) reflect.Kind {
	switch t := t.Underlying().(type) {
	case *types.Basic:
		switch t.Kind() {
		case types.Bool:
			return reflect.Bool
		case types.Int:
			return reflect.Int
		case types.Int8:
			return reflect.Int8
		case types.Int16:
			return reflect.Int16
		case types.Int32:
			return reflect.Int32
		case types.Int64:
			return reflect.Int64
		case types.Uint:
			return reflect.Uint
		case types.Uint8:
			return reflect.Uint8
		case types.Uint16:
			return reflect.Uint16
		case types.Uint32:
			return reflect.Uint32
		case types.Uint64:
			return reflect.Uint64
		case types.Uintptr:
			return reflect.Uintptr
		case types.Float32:
			return reflect.Float32
		case types.Float64:
			return reflect.Float64
		case types.Complex64:
			return reflect.Complex64
		case types.Complex128:
			return reflect.Complex128
		case types.String:
			return reflect.String
		case types.UnsafePointer:
			return reflect.UnsafePointer
		}
	case *types.Array:
		return reflect.Array
	case *types.Chan:
		return reflect.Chan
	case *types.Signature:
		return reflect.Func
	case *types.Interface:
		return reflect.Interface
	case *types.Map:
		return reflect.Map
	case *types.Pointer:
		return reflect.Ptr
	case *types.Slice:
		return reflect.Slice
	case *types.Struct:
		return reflect.Struct
	}
	return reflect.Invalid
}

func (w *Worker) mkRType(t types.Type) Iface {
	if t == nil {
		return Iface{}
	}
	return Iface{T: rtypeT, V: RType{t}}
}

func (w *Worker) callRTypeMethod(fr *frame, name string, args []Value) Value {
	rt := args[0].(RType).T
	tt := w.tt
	p := w.path
	switch name {
	case "Elem":
		switch u := rt.Underlying().(type) {
		case *types.Pointer:
			return w.mkRType(u.Elem())
		case *types.Slice:
			return w.mkRType(u.Elem())
		case *types.Array:
			return w.mkRType(u.Elem())
		case *types.Map:
			return w.mkRType(u.Elem())
		case *types.Chan:
			return w.mkRType(u.Elem())
		}
		panic(targetPanic{v: w.newError(Str{S: "reflect: Elem of invalid type " + rt.String()})})
	case "Key":
		if m, ok := rt.Underlying().(*types.Map); ok {
			return w.mkRType(m.Key())
		}
	case "Kind":
		return tt.BVC(64, uint64(reflectKind(rt)))
	case "String":
		return Str{S: rt.String()}
	case "Name":
		if n, ok := rt.(*types.Named); ok {
			return Str{S: n.Obj().Name()}
		}
		if b, ok := rt.(*types.Basic); ok {
			return Str{S: b.Name()}
		}
		return Str{}
	case "PkgPath":
		if n, ok := rt.(*types.Named); ok && n.Obj().Pkg() != nil {
			return Str{S: n.Obj().Pkg().Path()}
		}
		return Str{}
	case "Comparable":
		return tt.BoolC(types.Comparable(rt))
	case "Implements":
		u := args[1].(Iface).V.(RType).T
		it, ok := u.Underlying().(*types.Interface)
		if !ok {
			panic(targetPanic{v: w.newError(Str{S: "reflect: non-interface type passed to Type.Implements"})})
		}
		return tt.BoolC(types.Implements(rt, it))
	case "AssignableTo":
		u := args[1].(Iface).V.(RType).T
		return tt.BoolC(types.AssignableTo(rt, u))
	case "NumMethod":
		return w.bv64(int64(w.prog.MethodSets.MethodSet(rt).Len()))
	case "Len":
		if a, ok := rt.Underlying().(*types.Array); ok {
			return w.bv64(a.Len())
		}
	case "NumField":
		if s, ok := rt.Underlying().(*types.Struct); ok {
			return w.bv64(int64(s.NumFields()))
		}
	case "Size":
		return tt.BVC(64, uint64(types.SizesFor("gc", "amd64").Sizeof(rt)))
	}
	p.unsupported("reflect type method %s on %v", name, rt)
	return nil
}

func init() {
	typeOf := func(fr *frame, a []Value) Value {
		return fr.w.mkRType(a[0].(Iface).T)
	}
	intrinsics["internal/reflectlite.TypeOf"] = typeOf
	intrinsics["reflect.TypeOf"] = typeOf
}

// RValue is a minimal reflect.Value: only usable directly (ValueOf(x).Kind(), .IsNil(), .Len(), .String()).
type RValue struct{ I Iface }

func init() {
	intrinsics["reflect.ValueOf"] = func(fr *frame, a []Value) Value { return RValue{a[0].(Iface)} }
	intrinsics["(reflect.Value).Kind"] = func(fr *frame, a []Value) Value {
		rv, ok := a[0].(RValue)
		if !ok {
			fr.p.unsupported("reflect.Value not produced by ValueOf")
		}
		if rv.I.T == nil {
			return fr.w.tt.BVC(64, 0)
		}
		return fr.w.tt.BVC(64, uint64(reflectKind(rv.I.T)))
	}
	intrinsics["(reflect.Value).IsValid"] = func(fr *frame, a []Value) Value {
		rv, _ := a[0].(RValue)
		return fr.w.tt.BoolC(rv.I.T != nil)
	}
	intrinsics["(reflect.Value).IsNil"] = func(fr *frame, a []Value) Value {
		rv, ok := a[0].(RValue)
		if !ok || rv.I.T == nil {
			fr.p.unsupported("reflect.Value.IsNil on invalid value")
		}
		switch v := rv.I.V.(type) {
		case *Value:
			return fr.w.tt.BoolC(v == nil)
		case *Map:
			return fr.w.tt.BoolC(v == nil)
		case Slice:
			return fr.w.tt.BoolC(v == nil)
		case Iface:
			return fr.w.tt.BoolC(v.T == nil)
		case *Chan:
			return fr.w.tt.BoolC(v == nil)
		}
		if isNilFunc(rv.I.V) {
			return fr.w.tt.True
		}
		fr.p.unsupported("reflect.Value.IsNil on %T", rv.I.V)
		return nil
	}
	intrinsics["(reflect.Value).Len"] = func(fr *frame, a []Value) Value {
		rv, _ := a[0].(RValue)
		switch v := rv.I.V.(type) {
		case Slice:
			return fr.w.bv64(int64(len(v)))
		case Array:
			return fr.w.bv64(int64(len(v)))
		case Str:
			return fr.w.bv64(int64(v.Len()))
		case *Map:
			if v == nil {
				return fr.w.bv64(0)
			}
			return fr.w.bv64(int64(v.Len()))
		}
		fr.p.unsupported("reflect.Value.Len on %T", rv.I.V)
		return nil
	}
	intrinsics["(reflect.Value).String"] = func(fr *frame, a []Value) Value {
		rv, _ := a[0].(RValue)
		if s, ok := rv.I.V.(Str); ok {
			return s
		}
		return Str{S: "<" + fmt.Sprint(rv.I.T) + " Value>"}
	}
	intrinsics["(reflect.Value).Type"] = func(fr *frame, a []Value) Value {
		rv, _ := a[0].(RValue)
		return fr.w.mkRType(rv.I.T)
	}
	intrinsics["(reflect.Value).Interface"] = func(fr *frame, a []Value) Value {
		rv, _ := a[0].(RValue)
		return rv.I
	}
}
