package symgo

import (
	"fmt"
	"go/token"
	"go/types"
	"runtime/debug"
	"strings"
	"time"

	"golang.org/x/tools/go/ssa"
)

type Config struct {
	Entry          string    // harness function name
	MaxDecisions   int       // per path (unwinding bound on symbolic decisions)
	MaxSteps       int       // per path instruction budget
	HardDeadline   time.Time // paths still running at this instant are ended (budget)
	MaxDepth       int       // call depth
	QueryTimeout   int       // ms
	IntMode        bool
	Trace          bool
	Stubs          map[string]string // full function name -> "noop" | harness function name | "nondet"
	InitSkip       map[string]bool
	SolverBin      []string
	ShadowBin      []string
	NoIfConv       bool
	SmtLog         string
	MapOrderNondet bool
}

type Stats struct {
	UnknownFeas int
	IfConv      int
	Steps       int64
}

// Worker owns one interpreter instance (globals, term table, solver).
type Worker struct {
	id     int
	prog   *ssa.Program
	hpkg   *ssa.Package // harness package
	cfg    *Config
	tt     *TermTable
	solver *Solver
	stats  Stats

	globals      map[*ssa.Global]*Value
	inited       map[*ssa.Package]bool
	initFail     map[string]string
	dirty        map[*ssa.Package]bool
	inInit       int
	funcsSeen    map[*ssa.Function]bool
	runtimeErrT  types.Type
	errorStringT types.Type
	pdom         map[*ssa.Function]*pdomInfo
	sizes        types.Sizes
	stubFns      map[*ssa.Function]*ssa.Function
	path         *Path
	samplesTaken int
}

type deferred struct {
	fn    Value
	args  []Value
	instr *ssa.Defer
	tail  *deferred
}

type frame struct {
	w                *Worker
	p                *Path
	caller           *frame
	fn               *ssa.Function
	block, prevBlock *ssa.BasicBlock
	env              map[ssa.Value]Value
	locals           []Value
	defers           *deferred
	result           Value
	panicking        bool
	panic            interface{}
	phitemps         []Value
	skipPhis         bool
	curInstr         ssa.Instruction
}

type internalErr struct {
	msg, where, stack string
}

func (fr *frame) get(key ssa.Value) Value {
	switch key := key.(type) {
	case nil:
		return nil
	case *ssa.Function:
		return key
	case *ssa.Builtin:
		return key
	case *ssa.Const:
		return fr.w.constValue(key)
	case *ssa.Global:
		return fr.w.globalAddr(key)
	}
	if r, ok := fr.env[key]; ok {
		return r
	}
	panic(fmt.Sprintf("get: no value for %T: %v in %s", key, key.Name(), fr.fn))
}

func (w *Worker) globalAddr(g *ssa.Global) *Value {
	if g.Pkg != nil {
		w.ensureInit(g.Pkg)
	}
	if r, ok := w.globals[g]; ok {
		return r
	}
	cell := w.zero(deref(g.Type()))
	w.globals[g] = &cell
	return &cell
}

func deref(t types.Type) types.Type {
	if p, ok := t.Underlying().(*types.Pointer); ok {
		return p.Elem()
	}
	panic(fmt.Sprintf("deref of non-pointer %v", t))
}

func (w *Worker) constValue(c *ssa.Const) Value {
	if c.Value == nil {
		return w.zero(c.Type())
	}
	t := c.Type()
	if tp, ok := t.(*types.TypeParam); ok {
		_ = tp
		panic("const of type parameter")
	}
	if b, ok := t.Underlying().(*types.Basic); ok {
		if b.Info()&types.IsString != 0 {
			return Str{S: constantString(c)}
		}
		if b.Info()&types.IsComplex != 0 {
			return unsupportedValue{"complex constant"}
		}
		s, ok := basicSort(b)
		if ok {
			switch s.K {
			case KBool:
				return w.tt.BoolC(constantBool(c))
			case KBV:
				if b.Info()&types.IsUnsigned != 0 {
					return w.tt.BVC(s.W, c.Uint64())
				}
				return w.tt.BVC(s.W, uint64(c.Int64()))
			case KFP:
				return w.tt.FPC(s.W, c.Float64())
			}
		}
	}
	panic(fmt.Sprintf("constValue: unexpected constant type: %s", c.Type()))
}

// ---------------------------------------------------------------------------

func (fr *frame) runDefer(d *deferred) {
	var ok bool
	defer func() {
		if !ok {
			r := recover()
			switch r.(type) {
			case pathAbort, stopSignal, killed, internalErr:
				panic(r)
			}
			if _, isTP := r.(targetPanic); !isTP {
				panic(r) // interpreter bug
			}
			fr.panicking = true
			fr.panic = r
		}
	}()
	fr.w.call(fr, d.instr.Pos(), d.fn, d.args)
	ok = true
}

func (fr *frame) runDefers() {
	for d := fr.defers; d != nil; d = d.tail {
		fr.runDefer(d)
	}
	fr.defers = nil
	if fr.panicking {
		panic(fr.panic)
	}
}

func (w *Worker) lookupMethod(typ types.Type, meth *types.Func) *ssa.Function {
	return w.prog.LookupMethod(typ, meth.Pkg(), meth.Name())
}

func (fr *frame) visitInstr(instr ssa.Instruction) bool /* returned */ {
	w := fr.w
	p := fr.p
	p.steps++
	if p.steps&0xffff == 0 {
		if hd := w.cfg.HardDeadline; !hd.IsZero() && time.Now().After(hd) {
			p.abort(abortBudget, "exploration deadline reached in the middle of a path")
		}
	}
	if p.steps > w.cfg.MaxSteps {
		p.abort(abortBudget, "instruction budget %d exceeded (in %s)", w.cfg.MaxSteps, fr.fn)
	}
	switch instr := instr.(type) {
	case *ssa.DebugRef:

	case *ssa.UnOp:
		fr.env[instr] = fr.unop(instr, fr.get(instr.X))

	case *ssa.BinOp:
		fr.env[instr] = p.binop(instr.Op, instr.X.Type(), instr.Y.Type(), fr.get(instr.X), fr.get(instr.Y))

	case *ssa.Call:
		fn, args := fr.prepareCall(&instr.Call)
		fr.env[instr] = w.call(fr, instr.Pos(), fn, args)

	case *ssa.ChangeInterface:
		fr.env[instr] = fr.get(instr.X)

	case *ssa.ChangeType:
		fr.env[instr] = fr.get(instr.X)

	case *ssa.Convert:
		fr.env[instr] = p.conv(instr.Type(), instr.X.Type(), fr.get(instr.X))

	case *ssa.MultiConvert:
		fr.env[instr] = p.conv(instr.Type(), instr.X.Type(), fr.get(instr.X))

	case *ssa.SliceToArrayPointer:
		x := fr.get(instr.X).(Slice)
		n := deref(instr.Type()).Underlying().(*types.Array).Len()
		if int64(len(x)) < n {
			panic(runtimePanic("cannot convert slice to array pointer: length too short"))
		}
		if x == nil {
			fr.env[instr] = (*Value)(nil)
		} else {
			// the array view shares its elements with the slice's backing store
			var av Value = Array(x[:n:n])
			fr.env[instr] = &av
		}

	case *ssa.MakeInterface:
		fr.env[instr] = Iface{T: instr.X.Type(), V: fr.get(instr.X)}

	case *ssa.Extract:
		fr.env[instr] = fr.get(instr.Tuple).(Tuple)[instr.Index]

	case *ssa.Slice:
		fr.env[instr] = p.sliceOp(instr, fr.get(instr.X), fr.get(instr.Low), fr.get(instr.High), fr.get(instr.Max))

	case *ssa.Return:
		switch len(instr.Results) {
		case 0:
		case 1:
			fr.result = fr.get(instr.Results[0])
		default:
			var res []Value
			for _, r := range instr.Results {
				res = append(res, fr.get(r))
			}
			fr.result = Tuple(res)
		}
		fr.block = nil
		return true

	case *ssa.RunDefers:
		fr.runDefers()

	case *ssa.Panic:
		panic(targetPanic{v: fr.get(instr.X), site: fr.fn.String()})

	case *ssa.Send:
		ch := fr.get(instr.Chan).(*Chan)
		p.chanSend(ch, fr.get(instr.X))

	case *ssa.Store:
		addr := fr.get(instr.Addr).(*Value)
		if addr == nil {
			panic(runtimePanic("nil pointer dereference (store)"))
		}
		T := deref(instr.Addr.Type())
		if w.inInit == 0 {
			p.undo = append(p.undo, undoRec{T: T, addr: addr, old: load(T, addr)})
		}
		store(T, addr, fr.get(instr.Val))

	case *ssa.If:
		c := fr.get(instr.Cond).(*Term)
		if !c.IsConst() && !w.cfg.NoIfConv {
			if converted, finished := fr.tryIfConvert(instr, c); converted {
				return finished
			}
		}
		succ := 1
		if p.branch(c) {
			succ = 0
		}
		fr.prevBlock, fr.block = fr.block, fr.block.Succs[succ]
		return false

	case *ssa.Jump:
		fr.prevBlock, fr.block = fr.block, fr.block.Succs[0]
		return false

	case *ssa.Defer:
		fn, args := fr.prepareCall(&instr.Call)
		defers := &fr.defers
		if instr.DeferStack != nil {
			if into := fr.get(instr.DeferStack); into != nil {
				defers = into.(**deferred)
			}
		}
		*defers = &deferred{fn: fn, args: args, instr: instr, tail: *defers}

	case *ssa.Go:
		fn, args := fr.prepareCall(&instr.Call)
		p.spawn(fr, instr, fn, args)

	case *ssa.MakeChan:
		n := p.concInt(fr.get(instr.Size).(*Term))
		fr.env[instr] = &Chan{cap: int(n)}

	case *ssa.Alloc:
		var addr *Value
		if instr.Heap {
			addr = new(Value)
			fr.env[instr] = addr
		} else {
			addr = fr.env[instr].(*Value)
		}
		*addr = w.zero(deref(instr.Type()))

	case *ssa.MakeSlice:
		capT := fr.get(instr.Cap).(*Term)
		lenT := fr.get(instr.Len).(*Term)
		cp := int64(p.concInt(capT))
		ln := int64(p.concInt(lenT))
		if ln < 0 || cp < 0 || ln > cp {
			panic(runtimePanic("makeslice: len out of range"))
		}
		if cp > 1<<24 {
			p.unsupported("makeslice: capacity %d too large", cp)
		}
		sl := make(Slice, cp)
		tElt := instr.Type().Underlying().(*types.Slice).Elem()
		for i := range sl {
			sl[i] = w.zero(tElt)
		}
		fr.env[instr] = sl[:ln]

	case *ssa.MakeMap:
		fr.env[instr] = newMap(instr.Type().Underlying().(*types.Map).Key())

	case *ssa.Range:
		x := fr.get(instr.X)
		switch x := x.(type) {
		case *Map:
			fr.env[instr] = &mapIter{m: x}
		case Str:
			fr.env[instr] = &strIter{s: x}
		default:
			panic(fmt.Sprintf("range over %T", x))
		}

	case *ssa.Next:
		fr.env[instr] = fr.get(instr.Iter).(iter).next(p)

	case *ssa.FieldAddr:
		x := fr.get(instr.X).(*Value)
		if x == nil {
			panic(runtimePanic("nil pointer dereference (field " + fieldName(instr.X.Type(), instr.Field) + ")"))
		}
		fr.env[instr] = &(*x).(Struct)[instr.Field]

	case *ssa.Field:
		fr.env[instr] = fr.get(instr.X).(Struct)[instr.Field]

	case *ssa.IndexAddr:
		x := fr.get(instr.X)
		idx := fr.get(instr.Index).(*Term)
		if !idx.IsConst() && loadOnlyReferrers(instr) {
			// symbolic index whose address is only dereferenced: read lazily through an ite chain (no fork per index)
			var elems []Value
			switch x := x.(type) {
			case Slice:
				elems = x
			case *Value:
				if x != nil {
					elems = (*x).(Array)
				}
			}
			if elems != nil && len(elems) <= 512 && allScalar(elems) {
				i64 := p.toInt64(idx, instr.Index.Type())
				p.check(w.tt.ULT(i64, w.tt.BVC(64, uint64(len(elems)))), fmt.Sprintf("index out of range with length %d", len(elems)))
				fr.env[instr] = symElemRef{elems: elems, idx: i64}
				break
			}
		}
		switch x := x.(type) {
		case Slice:
			i := p.boundedIndex(idx, instr.Index.Type(), len(x))
			fr.env[instr] = &x[i]
			if isByteSlice(instr.X.Type()) {
				p.noteElem(&x[i], x, i)
			}
		case *Value:
			if x == nil {
				panic(runtimePanic("nil pointer dereference (array index)"))
			}
			a := (*x).(Array)
			i := p.boundedIndex(idx, instr.Index.Type(), len(a))
			fr.env[instr] = &a[i]
		default:
			panic(fmt.Sprintf("unexpected x type in IndexAddr: %T", x))
		}

	case *ssa.Index:
		x := fr.get(instr.X)
		idx := fr.get(instr.Index).(*Term)
		switch x := x.(type) {
		case Array:
			fr.env[instr] = p.indexRead(idx, instr.Index.Type(), []Value(x))
		case Str:
			if idx.IsConst() {
				i := p.boundedIndex(idx, instr.Index.Type(), x.Len())
				fr.env[instr] = w.strByte(x, i)
			} else {
				bs := w.strBytes(x)
				vs := make([]Value, len(bs))
				for i, b := range bs {
					vs[i] = b
				}
				fr.env[instr] = p.indexRead(idx, instr.Index.Type(), vs)
			}
		default:
			panic(fmt.Sprintf("unexpected x type in Index: %T", x))
		}

	case *ssa.Lookup:
		fr.env[instr] = p.lookup(instr, fr.get(instr.X), fr.get(instr.Index))

	case *ssa.MapUpdate:
		m := fr.get(instr.Map).(*Map)
		if w.inInit == 0 {
			w.noteGlobalStore(instr.Map)
		}
		p.mapInsert(m, fr.get(instr.Key), fr.get(instr.Value))

	case *ssa.TypeAssert:
		fr.env[instr] = fr.typeAssert(instr, fr.get(instr.X).(Iface))

	case *ssa.MakeClosure:
		var bindings []Value
		for _, b := range instr.Bindings {
			bindings = append(bindings, fr.get(b))
		}
		fr.env[instr] = &Closure{instr.Fn.(*ssa.Function), bindings}

	case *ssa.Phi:
		panic("unreachable: phi")

	case *ssa.Select:
		fr.env[instr] = p.selectOp(instr, fr)

	default:
		panic(fmt.Sprintf("unexpected instruction: %T", instr))
	}
	return false
}

func fieldName(pt types.Type, i int) string {
	defer func() { recover() }()
	return deref(pt).Underlying().(*types.Struct).Field(i).Name()
}

// concInt concretises an integer term (forks per feasible value).
func (p *Path) concInt(t *Term) uint64 {
	if t.IsConst() {
		return t.C
	}
	return p.concretize(t)
}

// boundedIndex checks 0 <= idx < n (forking a runtime panic) and concretises.
func (p *Path) boundedIndex(idx *Term, it types.Type, n int) int {
	tt := p.w.tt
	if idx.IsConst() {
		var i int64
		if isSigned(it) {
			i = sext(idx.C, idx.Sort.W)
		} else {
			if idx.C > 1<<62 {
				i = -1
			} else {
				i = int64(idx.C)
			}
		}
		if i < 0 || i >= int64(n) {
			panic(runtimePanic(fmt.Sprintf("index out of range [%d] with length %d", i, n)))
		}
		return int(i)
	}
	i64 := p.toInt64(idx, it)
	ok := tt.ULT(i64, tt.BVC(64, uint64(n)))
	p.check(ok, fmt.Sprintf("index out of range with length %d", n))
	return int(p.concretize(i64))
}

// toInt64 widens an index/len term to 64 bits respecting signedness.
func (p *Path) toInt64(t *Term, ty types.Type) *Term {
	if t.Sort.W == 64 {
		return t
	}
	if isSigned(ty) {
		return p.w.tt.SignExt(t, 64)
	}
	return p.w.tt.ZeroExt(t, 64)
}

// indexRead reads elems[idx] for scalar element vectors via an ite chain when
// idx is symbolic (no fork); falls back to concretisation for non-scalars.
func (p *Path) indexRead(idx *Term, it types.Type, elems []Value) Value {
	tt := p.w.tt
	n := len(elems)
	if idx.IsConst() {
		return copyVal(elems[p.boundedIndex(idx, it, n)])
	}
	i64 := p.toInt64(idx, it)
	p.check(tt.ULT(i64, tt.BVC(64, uint64(n))), fmt.Sprintf("index out of range with length %d", n))
	allScalar := true
	for _, e := range elems {
		if _, ok := e.(*Term); !ok {
			allScalar = false
			break
		}
	}
	if !allScalar || n > 512 {
		return copyVal(elems[int(p.concretize(i64))])
	}
	return p.iteTable(i64, elems)
}

func (fr *frame) prepareCall(call *ssa.CallCommon) (fn Value, args []Value) {
	v := fr.get(call.Value)
	if call.Method == nil {
		fn = v
	} else {
		recv := v.(Iface)
		if recv.T == nil {
			panic(runtimePanic("nil pointer dereference (method " + call.Method.Name() + " invoked on nil interface)"))
		}
		if recv.T == rtypeT {
			args = append(args, recv.V)
			for _, arg := range call.Args {
				args = append(args, fr.get(arg))
			}
			return &rtypeMethod{call.Method.Name()}, args
		}
		f := fr.w.lookupMethod(recv.T, call.Method)
		if f == nil {
			panic(fmt.Sprintf("method set for dynamic type %v does not contain %s", recv.T, call.Method))
		}
		fn = f
		args = append(args, recv.V)
	}
	for _, arg := range call.Args {
		args = append(args, fr.get(arg))
	}
	return
}

func (w *Worker) call(caller *frame, callpos token.Pos, fn Value, args []Value) Value {
	switch fn := fn.(type) {
	case *ssa.Function:
		if fn == nil {
			panic(runtimePanic("nil pointer dereference (call of nil func)"))
		}
		return w.callSSA(caller, callpos, fn, args, nil)
	case *Closure:
		if fn == nil {
			panic(runtimePanic("nil pointer dereference (call of nil func)"))
		}
		return w.callSSA(caller, callpos, fn.Fn, args, fn.Env)
	case *ssa.Builtin:
		return w.callBuiltin(caller, callpos, fn, args)
	case *rtypeMethod:
		return w.callRTypeMethod(caller, fn.name, args)
	}
	panic(fmt.Sprintf("cannot call %T", fn))
}

func funcKey(fn *ssa.Function) string {
	if o := fn.Origin(); o != nil {
		return o.String()
	}
	return fn.String()
}

func (w *Worker) callSSA(caller *frame, callpos token.Pos, fn *ssa.Function, args []Value, env []Value) Value {
	p := w.path
	fr := &frame{w: w, p: p, caller: caller, fn: fn}
	if caller != nil && fn.Synthetic == "package initializer" {
		return nil // imports are initialised lazily, on first use
	}
	if fn.Parent() == nil {
		name := funcKey(fn)
		if len(w.cfg.Stubs) > 0 {
			if s, ok := w.cfg.Stubs[name]; ok {
				return w.callStub(fr, fn, s, args)
			}
		}
		if ext := intrinsics[name]; ext != nil {
			return ext(fr, args)
		}
		if fn.Blocks == nil {
			if fn.Pkg == w.hpkg && strings.HasPrefix(fn.Name(), "v") {
				if h := harnessAPI[fn.Name()]; h != nil {
					return h(fr, args)
				}
			}
			if r, ok := w.defaultExternal(fr, fn, args); ok {
				return r
			}
			p.unsupported("no body for function %s", name)
		}
		if r, ok := w.defaultStub(fr, fn, name, args); ok {
			return r
		}
	}
	if fn.TypeParams().Len() > 0 && len(fn.TypeArgs()) == 0 {
		p.unsupported("uninstantiated generic function %s", fn)
	}
	if fn.Pkg != nil {
		w.ensureInit(fn.Pkg)
	} else if o := fn.Origin(); o != nil && o.Pkg != nil {
		w.ensureInit(o.Pkg)
	}
	w.funcsSeen[fn] = true
	p.depth++
	if p.depth > w.cfg.MaxDepth {
		p.abort(abortBudget, "call depth %d exceeded at %s", w.cfg.MaxDepth, fn)
	}
	if w.cfg.Trace {
		fmt.Printf("%*s> %s\n", p.depth, "", fn)
	}
	p.stack = append(p.stack, fn.String())
	fr.env = make(map[ssa.Value]Value, len(fn.Params)+16)
	fr.block = fn.Blocks[0]
	fr.locals = make([]Value, len(fn.Locals))
	for i, l := range fn.Locals {
		fr.locals[i] = w.zero(deref(l.Type()))
		fr.env[l] = &fr.locals[i]
	}
	for i, pa := range fn.Params {
		fr.env[pa] = args[i]
	}
	for i, fv := range fn.FreeVars {
		fr.env[fv] = env[i]
	}
	for fr.block != nil {
		fr.runFrame()
	}
	p.depth--
	p.stack = p.stack[:len(p.stack)-1]
	return fr.result
}

func (fr *frame) runFrame() {
	depth0 := fr.p.depth
	stack0 := len(fr.p.stack)
	defer func() {
		if fr.block == nil {
			return // normal return
		}
		r := recover()
		if _, isTP := r.(targetPanic); !isTP {
			switch r.(type) {
			case pathAbort, internalErr, killed, stopSignal:
				panic(r)
			}
			pos := ""
			if fr.curInstr != nil {
				pos = fr.w.prog.Fset.Position(fr.curInstr.Pos()).String() + " " + fr.curInstr.String()
			}
			panic(internalErr{msg: fmt.Sprint(r), where: fr.p.where() + " [" + pos + "]", stack: string(debug.Stack())})
		}
		tp := r.(targetPanic)
		if tp.site == "" {
			tp.site = fr.fn.String()
		}
		if tp.runtime && tp.v == nil {
			tp.v = fr.w.runtimeErrorValue(tp.msg)
		}
		fr.p.depth = depth0
		fr.p.stack = fr.p.stack[:stack0]
		fr.panicking = true
		fr.panic = tp
		fr.runDefers()
		fr.block = fr.fn.Recover
		if fr.block == nil {
			// recovered, no named results: return zero values
			fr.result = fr.w.zeroResult(fr.fn)
		}
	}()
	for {
		nonPhis := fr.executePhis()
		for _, instr := range nonPhis {
			fr.curInstr = instr
			if fr.visitInstr(instr) {
				return
			}
			if fr.block == nil {
				return
			}
			if _, ok := instr.(*ssa.If); ok {
				break
			}
			if _, ok := instr.(*ssa.Jump); ok {
				break
			}
		}
	}
}

func (w *Worker) zeroResult(fn *ssa.Function) Value {
	res := fn.Signature.Results()
	switch res.Len() {
	case 0:
		return nil
	case 1:
		return w.zero(res.At(0).Type())
	}
	return w.zero(res)
}

func (fr *frame) executePhis() []ssa.Instruction {
	firstNonPhi := -1
	for i, instr := range fr.block.Instrs {
		if _, ok := instr.(*ssa.Phi); !ok {
			firstNonPhi = i
			break
		}
	}
	nonPhis := fr.block.Instrs[firstNonPhi:]
	if fr.skipPhis {
		fr.skipPhis = false
		return nonPhis
	}
	if firstNonPhi > 0 {
		phis := fr.block.Instrs[:firstNonPhi]
		predIndex := -1
		for i, b := range fr.block.Preds {
			if b == fr.prevBlock {
				predIndex = i
				break
			}
		}
		fr.phitemps = fr.phitemps[:0]
		for _, phi := range phis {
			fr.phitemps = append(fr.phitemps, fr.get(phi.(*ssa.Phi).Edges[predIndex]))
		}
		for i, phi := range phis {
			fr.env[phi.(*ssa.Phi)] = fr.phitemps[i]
		}
	}
	return nonPhis
}

func (w *Worker) runtimeErrorValue(msg string) Value {
	// runtime.Error implementation: use runtime.errorString (a string type)
	return Iface{T: w.runtimeErrT, V: Str{S: msg}}
}

// doRecover implements recover().
func doRecover(caller *frame) Value {
	if caller != nil && !caller.panicking && caller.caller != nil && caller.caller.panicking {
		caller.caller.panicking = false
		pv := caller.caller.panic
		caller.caller.panic = nil
		if tp, ok := pv.(targetPanic); ok {
			if tp.v == nil {
				return caller.w.runtimeErrorValue(tp.msg)
			}
			return tp.v
		}
		panic(fmt.Sprintf("unexpected panic type %T in recover()", pv))
	}
	return Iface{}
}

// ---------------------------------------------------------------------------
// Package initialisation (lazy, non-transitive).

var neverInit = map[string]bool{
	"runtime": true, "os": true, "syscall": true, "reflect": true, "sync": true, "sync/atomic": true,
	"testing": true, "log": true, "internal/cpu": true, "internal/godebug": true, "os/signal": true,
	"internal/poll": true, "internal/testlog": true,
	"runtime/debug": true, "runtime/pprof": true, "runtime/trace": true, "net": true,
	"crypto/rand": true, "math/rand": true, "math/rand/v2": true, "internal/reflectlite": true,
	"log/slog": true, "flag": true, "os/exec": true, "os/user": true, "crypto/tls": true, "crypto/x509": true,
	"net/http": true, "expvar": true, "plugin": true, "unique": true, "internal/abi": true, "internal/bytealg": true,
	"github.com/sirupsen/logrus": true, "iter": true, "context": false,
}

var initInternalOK = map[string]bool{"internal/itoa": true, "internal/stringslite": true, "internal/oserror": true,
	"internal/byteorder": true, "internal/filepathlite": true}

func (w *Worker) ensureInit(pkg *ssa.Package) {
	if w.inited[pkg] {
		return
	}
	w.inited[pkg] = true
	path := pkg.Pkg.Path()
	if neverInit[path] || w.cfg.InitSkip[path] || strings.HasPrefix(path, "internal/") && !initInternalOK[path] {
		if path == "os" || path == "internal/oserror" || path == "syscall" {
			// error sentinels are commonly referenced: leave zero
		}
		return
	}
	initFn := pkg.Func("init")
	if initFn == nil || initFn.Blocks == nil {
		return
	}
	w.runInit(pkg, initFn)
}

func (w *Worker) runInit(pkg *ssa.Package, initFn *ssa.Function) {
	p := w.path
	w.inInit++
	savedDepth, savedStack, savedSteps := p.depth, len(p.stack), p.steps
	defer func() {
		w.inInit--
		p.depth, p.stack = savedDepth, p.stack[:savedStack]
		p.steps = savedSteps
		if r := recover(); r != nil {
			switch r := r.(type) {
			case pathAbort:
				w.initFail[pkg.Pkg.Path()] = r.reason
			case targetPanic:
				w.initFail[pkg.Pkg.Path()] = "panic in init: " + r.msg + w.show(r.v)
			case internalErr:
				w.initFail[pkg.Pkg.Path()] = "interpreter error in init: " + r.msg + " @ " + r.where
			default:
				panic(r)
			}
		}
	}()
	w.callSSA(nil, token.NoPos, initFn, nil, nil)
}

// noteGlobalStore marks the package of a global that is written outside init,
// so its initialiser is re-run before the next path.
func (w *Worker) noteGlobalStore(addr ssa.Value) {
	for i := 0; i < 8; i++ {
		switch a := addr.(type) {
		case *ssa.Global:
			if a.Pkg != nil {
				w.dirty[a.Pkg] = true
			}
			return
		case *ssa.FieldAddr:
			addr = a.X
		case *ssa.IndexAddr:
			addr = a.X
		case *ssa.UnOp:
			if a.Op == token.MUL {
				addr = a.X
			} else {
				return
			}
		default:
			return
		}
	}
}

// resetDirty re-initialises packages whose globals were modified by a path.
func (w *Worker) resetDirty() {
	for pkg := range w.dirty {
		for _, m := range pkg.Members {
			if g, ok := m.(*ssa.Global); ok {
				delete(w.globals, g)
			}
		}
		delete(w.inited, pkg)
	}
	w.dirty = map[*ssa.Package]bool{}
}

func isByteSlice(t types.Type) bool {
	if s, ok := t.Underlying().(*types.Slice); ok {
		if b, ok := s.Elem().Underlying().(*types.Basic); ok && b.Kind() == types.Uint8 {
			return true
		}
	}
	return false
}

type elemRef struct {
	s Slice
	i int
}

// noteElem remembers that ptr addresses element i of byte slice s (needed by unsafe.String/Slice).
func (p *Path) noteElem(ptr *Value, s Slice, i int) {
	if p.elemOrigin == nil {
		p.elemOrigin = map[*Value]elemRef{}
	}
	p.elemOrigin[ptr] = elemRef{s, i}
}

// undoRec records a memory write made during a path so that state reachable from package-level
// variables (initialised once per worker) is restored before the next path.
type undoRec struct {
	T    types.Type // nil: raw cell
	addr *Value
	old  Value
}

// setCell writes a raw cell (engine intrinsics) with undo logging.
func (p *Path) setCell(c *Value, v Value) {
	if p.w.inInit == 0 {
		p.undo = append(p.undo, undoRec{addr: c, old: *c})
	}
	*c = v
}

func (p *Path) rollbackWrites() {
	for i := len(p.undo) - 1; i >= 0; i-- {
		u := p.undo[i]
		if u.T != nil {
			store(u.T, u.addr, u.old)
		} else {
			*u.addr = u.old
		}
	}
	p.undo = nil
}

// symElemRef is the address of elems[idx] for a symbolic idx (already bounds-checked); it only ever
// flows into loads (see loadOnlyReferrers).
type symElemRef struct {
	elems []Value
	idx   *Term
}

func loadOnlyReferrers(instr *ssa.IndexAddr) bool {
	refs := instr.Referrers()
	if refs == nil || len(*refs) == 0 {
		return false
	}
	for _, r := range *refs {
		u, ok := r.(*ssa.UnOp)
		if !ok || u.Op != token.MUL || u.X != instr {
			if _, isDbg := r.(*ssa.DebugRef); isDbg {
				continue
			}
			return false
		}
	}
	return true
}

func allScalar(elems []Value) bool {
	for _, e := range elems {
		if _, ok := e.(*Term); !ok {
			return false
		}
	}
	return true
}
