package symgo

// (*errors.joinError).Error builds its result with unsafe.String, which the interpreter does not
// model. Same result, computed on the value level: the Error() strings of the joined errors
// separated by newlines.
func extJoinErrorError(fr *frame, a []Value) Value {
	w := fr.w
	recv := a[0].(*Value)
	if recv == nil {
		panic(runtimePanic("nil pointer dereference"))
	}
	errs := (*recv).(Struct)[0].(Slice)
	res := Str{}
	for i, e := range errs {
		if i > 0 {
			res = w.strConcat(res, Str{S: "\n"})
		}
		res = w.strConcat(res, fr.valueToStr(e.(Iface), 'v'))
	}
	return res
}

func init() {
	intrinsics["(*errors.joinError).Error"] = extJoinErrorError
}
