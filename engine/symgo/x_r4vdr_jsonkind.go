package symgo

import (
	"go/types"
)

// JSON identity codec, kind mismatch. The identity codec (intrinsics2.go) round-trips a value into a target of
// the same Go type and ends the path as unsupported for any other combination. Code that probes the JSON kind of
// an untrusted member by unmarshalling it into a basic Go type (go-did Service.UnmarshalServiceEndpoint(&string))
// relies on encoding/json's *UnmarshalTypeError for the other kinds. This wrapper answers exactly the
// combinations whose outcome does not depend on any encoding detail:
//
//	source: a value as encoding/json itself decodes into interface{} - bool, float64, string,
//	        []interface{}, map[string]interface{} (unnamed types only, so no MarshalJSON can interfere)
//	target: *string, *bool, *float64 / *int... (unnamed basic types)
//
// and the JSON kind of the source differs from the kind the target accepts -> error "json: cannot unmarshal
// <kind> into Go value of type <T>", target untouched. Everything else is delegated to the identity codec.
// (JSON null - a nil interface - is a no-op without error in encoding/json; the identity codec stores the zero
// value, which is the same for a fresh target.)
func extJSONUnmarshalKinds(fr *frame, a []Value) Value {
	p := fr.p
	w := fr.w
	data, ok1 := a[0].(Slice)
	target, ok2 := a[1].(Iface)
	if !ok1 || !ok2 || target.T == nil {
		return extJSONUnmarshal(fr, a)
	}
	blob, ok := p.blobOf(data)
	if !ok || blob.T == nil {
		return extJSONUnmarshal(fr, a)
	}
	pt, isPtr := target.T.(*types.Pointer)
	if !isPtr {
		return extJSONUnmarshal(fr, a)
	}
	tb, isBasic := pt.Elem().(*types.Basic)
	if !isBasic {
		return extJSONUnmarshal(fr, a)
	}
	srcKind := jsonKindOfDecoded(blob.T)
	if srcKind == "" {
		return extJSONUnmarshal(fr, a)
	}
	var want string
	switch {
	case tb.Kind() == types.String:
		want = "string"
	case tb.Kind() == types.Bool:
		want = "bool"
	case tb.Info()&types.IsNumeric != 0 && tb.Info()&types.IsComplex == 0:
		want = "number"
	default:
		return extJSONUnmarshal(fr, a)
	}
	if srcKind == want {
		// same kind: identity codec for identical types (float64 into an integer type stays unsupported there)
		return extJSONUnmarshal(fr, a)
	}
	return w.newError(Str{S: "json: cannot unmarshal " + srcKind + " into Go value of type " + tb.Name()})
}

// jsonKindOfDecoded: the JSON kind of a value of one of the five types encoding/json decodes into interface{}.
func jsonKindOfDecoded(t types.Type) string {
	switch x := types.Unalias(t).(type) {
	case *types.Basic:
		switch x.Kind() {
		case types.Bool:
			return "bool"
		case types.Float64:
			return "number"
		case types.String:
			return "string"
		}
	case *types.Slice:
		if it, ok := types.Unalias(x.Elem()).(*types.Interface); ok && it.Empty() {
			return "array"
		}
	case *types.Map:
		kb, ok := x.Key().(*types.Basic)
		it, ok2 := types.Unalias(x.Elem()).(*types.Interface)
		if ok && kb.Kind() == types.String && ok2 && it.Empty() {
			return "object"
		}
	}
	return ""
}

func init() {
	intrinsics["encoding/json.Unmarshal"] = extJSONUnmarshalKinds
}
