package symgo

import (
	"fmt"
	"go/types"
	"strings"
)

// Harness API: bodiless functions named v* declared in the harness package are
// intercepted here.

type extFn func(fr *frame, args []Value) Value

var harnessAPI map[string]extFn

func init() {
	harnessAPI = map[string]extFn{
		"vBool":    func(fr *frame, a []Value) Value { return fr.p.nondetL("bool", BoolSort) },
		"vU8":      func(fr *frame, a []Value) Value { return fr.p.nondetL("u8", BV(8)) },
		"vU16":     func(fr *frame, a []Value) Value { return fr.p.nondetL("u16", BV(16)) },
		"vU32":     func(fr *frame, a []Value) Value { return fr.p.nondetL("u32", BV(32)) },
		"vU64":     func(fr *frame, a []Value) Value { return fr.p.nondetL("u64", BV(64)) },
		"vI8":      func(fr *frame, a []Value) Value { return fr.p.nondetL("i8", BV(8)) },
		"vI16":     func(fr *frame, a []Value) Value { return fr.p.nondetL("i16", BV(16)) },
		"vI32":     func(fr *frame, a []Value) Value { return fr.p.nondetL("i32", BV(32)) },
		"vI64":     func(fr *frame, a []Value) Value { return fr.p.nondetL("i64", BV(64)) },
		"vInt":     func(fr *frame, a []Value) Value { return fr.p.nondetL("i64", BV(64)) },
		"vF64":     func(fr *frame, a []Value) Value { return fr.p.nondetL("f64", FP(64)) },
		"vRange":   hRange,
		"vLen":     hLen,
		"vChoice":  hChoice,
		"vBytes":   hBytes,
		"vString":  hString,
		"vAssume":  hAssume,
		"vAssert":  hAssert,
		"vCover":   hCover,
		"vCut":     hCut,
		"vObserve": hObserve,
		"vClass":   hClass,
		"vTag":     hTag,
		"vMapOrder": func(fr *frame, a []Value) Value {
			fr.p.mapOrderNondet = a[0].(*Term).IsTrue()
			return nil
		},
		"vConc":        hConc,
		"vIsSymbolic":  func(fr *frame, a []Value) Value { return fr.w.tt.BoolC(fr.p.pinned == nil) },
		"vYield":       func(fr *frame, a []Value) Value { fr.p.yield("vYield"); return nil },
		"vAtomicBegin": func(fr *frame, a []Value) Value { fr.p.atomicDepth++; return nil },
		"vAtomicEnd":   func(fr *frame, a []Value) Value { fr.p.atomicDepth--; return nil },
		"vUF":          hUF,
		"vSetField":    hSetField,
		"vGetField":    hGetField,
		"vIte":         hIte,
		"vSchedBound": func(fr *frame, a []Value) Value {
			fr.p.preemptBound = int(fr.p.concInt(a[0].(*Term)))
			return nil
		},
		"vDone": func(fr *frame, a []Value) Value { fr.p.abort(abortDone, "vDone"); return nil },
	}
}

func (p *Path) nondetL(kind string, s Sort) *Term {
	label := kind
	if p.nextTag != "" {
		label = p.nextTag
		p.nextTag = ""
	}
	return p.nondet(label, s, kind)
}

func (p *Path) rngNext() uint64 {
	p.rng += 0x9e3779b97f4a7c15
	z := p.rng
	z = (z ^ (z >> 30)) * 0xbf58476d1ce4e5b9
	z = (z ^ (z >> 27)) * 0x94d049bb133111eb
	return z ^ (z >> 31)
}

// seededBits mirrors vDrawBits of the native runtime.
func (p *Path) seededBits(w int) uint64 {
	r := p.rngNext()
	if w > 8 && r&1 == 0 {
		r = (r >> 1) % 67
		if (r>>3)&1 == 1 && w >= 16 {
			return (uint64(0) - (r % 17)) & mask(w)
		}
		return r
	}
	r >>= 1
	return r & mask(w)
}

func (p *Path) pinnedValue(s Sort) *Term {
	tt := p.w.tt
	if p.seeded {
		switch s.K {
		case KBool:
			return tt.BoolC(p.seededBits(1)&1 == 1)
		case KFP:
			return tt.FPC(s.W, float64(int64(p.seededBits(64)))/8)
		}
		return tt.BVC(s.W, p.seededBits(s.W))
	}
	if p.pinPos >= len(p.pinned) {
		p.abort(abortUnsupported, "pinned replay: ran out of values")
	}
	v := p.pinned[p.pinPos]
	p.pinPos++
	switch s.K {
	case KBool:
		return tt.BoolC(v == "true" || v == "1")
	case KFP:
		var f float64
		fmt.Sscan(v, &f)
		if v == "NaN" {
			f = nan()
		}
		return tt.FPC(s.W, f)
	}
	var u uint64
	fmt.Sscan(v, &u)
	return tt.BVC(s.W, u)
}

func nan() float64 { z := 0.0; return z / z }

func hTag(fr *frame, a []Value) Value {
	fr.p.nextTag = a[0].(Str).Conc()
	return nil
}

// vRange(lo, hi int) int : symbolic integer with lo <= x <= hi (not concretised).
func hRange(fr *frame, a []Value) Value {
	tt := fr.w.tt
	lo, hi := a[0].(*Term), a[1].(*Term)
	if fr.p.seeded {
		return fr.p.seededRange(lo, hi)
	}
	v := fr.p.nondetL("i64", BV(64))
	fr.p.addPC(tt.And(tt.SLE(lo, v), tt.SLE(v, hi)))
	return v
}

func (p *Path) seededRange(lo, hi *Term) *Term {
	l, h := int64(lo.C), int64(hi.C)
	if h < l {
		p.abort(abortInfeasible, "empty range")
	}
	return p.w.bv64(l + int64(p.rngNext()%uint64(h-l+1)))
}

// vLen(lo, hi int) int : symbolic integer with lo <= x <= hi, concretised (forks).
func hLen(fr *frame, a []Value) Value {
	tt := fr.w.tt
	lo, hi := a[0].(*Term), a[1].(*Term)
	if fr.p.seeded {
		return fr.p.seededRange(lo, hi)
	}
	v := fr.p.nondetL("len", BV(64))
	fr.p.addPC(tt.And(tt.SLE(lo, v), tt.SLE(v, hi)))
	if fr.p.pinned == nil && fr.p.pos >= len(fr.p.prefix) && fr.w.solver.Check() == Unsat {
		fr.p.abort(abortInfeasible, "vLen: empty range")
	}
	return tt.BVC(64, fr.p.concretize(v))
}

func hChoice(fr *frame, a []Value) Value {
	n := fr.p.concInt(a[0].(*Term))
	tt := fr.w.tt
	if n <= 1 {
		return tt.BVC(64, 0)
	}
	if fr.p.seeded {
		return fr.p.seededRange(tt.BVC(64, 0), tt.BVC(64, n-1))
	}
	v := fr.p.nondetL("choice", BV(64))
	fr.p.addPC(tt.ULT(v, tt.BVC(64, n)))
	return tt.BVC(64, fr.p.concretize(v))
}

func hConc(fr *frame, a []Value) Value {
	t := a[0].(*Term)
	return fr.w.tt.BVC(t.Sort.W, fr.p.concInt(t))
}

func hBytes(fr *frame, a []Value) Value {
	n := int(fr.p.concInt(a[0].(*Term)))
	label := "byte"
	if fr.p.nextTag != "" {
		label = fr.p.nextTag
		fr.p.nextTag = ""
	}
	out := make(Slice, n)
	for i := range out {
		out[i] = fr.p.nondet(label, BV(8), "u8")
	}
	return out
}

func hString(fr *frame, a []Value) Value {
	n := int(fr.p.concInt(a[0].(*Term)))
	label := "chr"
	if fr.p.nextTag != "" {
		label = fr.p.nextTag
		fr.p.nextTag = ""
	}
	bs := make([]*Term, n)
	for i := range bs {
		bs[i] = fr.p.nondet(label, BV(8), "u8")
	}
	if n == 0 {
		return Str{}
	}
	return mkStr(bs)
}

func hAssume(fr *frame, a []Value) Value {
	c := a[0].(*Term)
	if c.IsTrue() {
		return nil
	}
	if c.IsFalse() {
		fr.p.abort(abortInfeasible, "vAssume(false)")
	}
	if fr.p.pos < len(fr.p.prefix) {
		// replaying: feasibility already established up to the prefix end
		fr.p.addPC(c)
		return nil
	}
	if !fr.p.feasible(c) {
		fr.p.abort(abortInfeasible, "vAssume: infeasible")
	}
	fr.p.addPC(c)
	return nil
}

func hAssert(fr *frame, a []Value) Value {
	c := a[0].(*Term)
	msg := a[1].(Str).Conc()
	site := msg
	if i := strings.Index(msg, ":"); i > 0 {
		site = msg[:i]
	}
	fr.p.assert(c, site, msg)
	return nil
}

func hCover(fr *frame, a []Value) Value {
	if fr.p.covers == nil {
		fr.p.covers = map[string]bool{}
	}
	fr.p.covers[a[0].(Str).Conc()] = true
	return nil
}

func hCut(fr *frame, a []Value) Value {
	fr.p.abort(abortCut, "%s", a[0].(Str).Conc())
	return nil
}

func hClass(fr *frame, a []Value) Value {
	fr.p.classes = append(fr.p.classes, a[0].(Str).Conc())
	return nil
}

func hObserve(fr *frame, a []Value) Value {
	name := a[0].(Str).Conc()
	v := a[1].(Iface)
	fr.p.observed = append(fr.p.observed, name+"="+fr.p.obsString(v))
	return nil
}

// obsString renders an observed value canonically (concrete values only; symbolic
// values print as "?" — observations are compared only in pinned mode).
func (p *Path) obsString(v Value) string {
	switch v := v.(type) {
	case Iface:
		if v.T == nil {
			return "nil"
		}
		return p.obsString(v.V)
	case *Term:
		if !v.IsConst() {
			return "?"
		}
		switch v.Sort.K {
		case KBool:
			return fmt.Sprint(v.C == 1)
		case KFP:
			return fmt.Sprint(v.F)
		}
		return fmt.Sprint(v.C)
	case Str:
		if !v.IsConc() {
			return "?"
		}
		return fmt.Sprintf("%q", v.Conc())
	case Slice:
		parts := make([]string, len(v))
		for i, e := range v {
			parts[i] = p.obsString(e)
		}
		return "[" + strings.Join(parts, " ") + "]"
	case Array:
		parts := make([]string, len(v))
		for i, e := range v {
			parts[i] = p.obsString(e)
		}
		return "[" + strings.Join(parts, " ") + "]"
	case Struct:
		parts := make([]string, len(v))
		for i, e := range v {
			parts[i] = p.obsString(e)
		}
		return "{" + strings.Join(parts, " ") + "}"
	case *Value:
		if v == nil {
			return "nil"
		}
		return "ptr"
	}
	return fmt.Sprintf("%T", v)
}

// vUF(name string, width int, args ...any) uint64-ish: uninterpreted function over scalar args.
// Returns a BV64 term; equal args give equal results (congruence), nothing else assumed.
func hUF(fr *frame, a []Value) Value {
	name := "uf_" + sanitize(a[0].(Str).Conc())
	var ts []*Term
	var flat func(v Value)
	flat = func(v Value) {
		switch v := v.(type) {
		case *Term:
			ts = append(ts, v)
		case Str:
			ts = append(ts, fr.w.strBytes(v)...)
		case Iface:
			flat(v.V)
		case Slice:
			for _, e := range v {
				flat(e)
			}
		case Array:
			for _, e := range v {
				flat(e)
			}
		case Struct:
			for _, e := range v {
				flat(e)
			}
		default:
			fr.p.unsupported("vUF argument of type %T", v)
		}
	}
	for _, x := range a[1].(Slice) {
		flat(x)
	}
	name = fmt.Sprintf("%s_%d", name, len(ts))
	for _, t := range ts {
		name += fmt.Sprintf("_%d", t.Sort.W)
	}
	return fr.w.tt.UF(name, BV(64), ts...)
}

func findField(st *types.Struct, name string) int {
	for i := 0; i < st.NumFields(); i++ {
		if st.Field(i).Name() == name {
			return i
		}
	}
	return -1
}

// vSetField(ptr any, field string, val any): sets an (unexported) field of *ptr.
func hSetField(fr *frame, a []Value) Value {
	pi := a[0].(Iface)
	name := a[1].(Str).Conc()
	val := a[2].(Iface)
	pt, ok := pi.T.Underlying().(*types.Pointer)
	if !ok {
		fr.p.unsupported("vSetField: not a pointer")
	}
	st, ok := pt.Elem().Underlying().(*types.Struct)
	if !ok {
		fr.p.unsupported("vSetField: not a struct pointer")
	}
	i := findField(st, name)
	if i < 0 {
		fr.p.unsupported("vSetField: no field %s", name)
	}
	cell := &(*pi.V.(*Value)).(Struct)[i]
	ft := st.Field(i).Type()
	if _, isIface := ft.Underlying().(*types.Interface); isIface {
		store(ft, cell, val)
	} else {
		store(ft, cell, val.V)
	}
	return nil
}

func hGetField(fr *frame, a []Value) Value {
	pi := a[0].(Iface)
	name := a[1].(Str).Conc()
	pt := pi.T.Underlying().(*types.Pointer)
	st := pt.Elem().Underlying().(*types.Struct)
	i := findField(st, name)
	if i < 0 {
		fr.p.unsupported("vGetField: no field %s", name)
	}
	ft := st.Field(i).Type()
	v := load(ft, &(*pi.V.(*Value)).(Struct)[i])
	if _, isIface := ft.Underlying().(*types.Interface); isIface {
		return v
	}
	return Iface{T: ft, V: v}
}

// vIte(c bool, a, b int) int
func hIte(fr *frame, a []Value) Value {
	return fr.w.tt.Ite(a[0].(*Term), a[1].(*Term), a[2].(*Term))
}

// Params are harness parameters given on the command line (bounds per tier).
var Params = map[string]int{}

func init() {
	harnessAPI["vParam"] = func(fr *frame, a []Value) Value {
		name := a[0].(Str).Conc()
		if v, ok := Params[name]; ok {
			return fr.w.bv64(int64(v))
		}
		return a[1]
	}
	// vGo(f) starts f as a goroutine; vWait() blocks until all spawned goroutines finished.
	harnessAPI["vGo"] = func(fr *frame, a []Value) Value {
		fr.p.spawn(fr, nil, a[0], nil)
		return nil
	}
	harnessAPI["vWait"] = func(fr *frame, a []Value) Value {
		p := fr.p
		if p.gor == nil {
			return nil
		}
		s := p.gor
		p.blockUntil(func() bool {
			for _, t := range s.threads[1:] {
				if !t.done {
					return false
				}
			}
			return true
		}, "vWait")
		return nil
	}
}

// Process stop: vStop() stops the whole (modelled) process at this point - no deferred function of the
// program under test runs, all goroutines end. vRunUntilStop(f) runs f and reports whether it was stopped.
type stopSignal struct{}

func init() {
	harnessAPI["vStop"] = func(fr *frame, a []Value) Value {
		panic(stopSignal{})
	}
	harnessAPI["vRunUntilStop"] = func(fr *frame, a []Value) (res Value) {
		p := fr.p
		depth0, stack0 := p.depth, len(p.stack)
		res = fr.w.tt.False
		defer func() {
			if r := recover(); r != nil {
				if _, ok := r.(stopSignal); !ok {
					panic(r)
				}
				p.endThreads()
				p.depth, p.stack = depth0, p.stack[:stack0]
				p.atomicDepth = 0
				res = fr.w.tt.True
			}
		}()
		fr.w.call(fr, 0, a[0], nil)
		return
	}
}

// vFreeVar(f any, i int) any: the i-th captured variable of closure f (for option closures whose parameter
// type is unexported in another package, e.g. storage.WithTTL(ttl)). Not available natively.
func init() {
	harnessAPI["vFreeVar"] = func(fr *frame, a []Value) Value {
		f := a[0].(Iface)
		i := int(fr.p.concInt(a[1].(*Term)))
		c, ok := f.V.(*Closure)
		if !ok || i < 0 || i >= len(c.Env) {
			fr.p.unsupported("vFreeVar: not a closure with %d captured variables", i+1)
		}
		fv := c.Fn.FreeVars[i]
		v := c.Env[i]
		t := fv.Type()
		// captured variables are held by reference when they are assigned after capture
		if pv, isPtr := v.(*Value); isPtr {
			if pt, ok := t.Underlying().(*types.Pointer); ok && pv != nil {
				return fr.w.toIface(pt.Elem(), load(pt.Elem(), pv))
			}
		}
		return fr.w.toIface(t, v)
	}
}
