package symgo

import (
	"crypto/sha1"
	"crypto/sha256"
	"fmt"
	"go/types"
	"reflect"
	"sort"
	"strings"

	"golang.org/x/tools/go/ssa"
)

// JSON identity codec: Marshal yields an opaque 8-byte blob that denotes a deep snapshot
// of the marshalled value; Unmarshal of such a blob into a pointer to the same type copies
// the snapshot back. Assumption (stated in every evidence file that uses it): JSON
// round-trips the value; custom (Un)MarshalJSON methods are bypassed.

func (p *Path) deepCopy(v Value, memo map[*Value]*Value) Value {
	switch v := v.(type) {
	case Struct:
		a := make(Struct, len(v))
		for i := range a {
			a[i] = p.deepCopy(v[i], memo)
		}
		return a
	case Array:
		a := make(Array, len(v))
		for i := range a {
			a[i] = p.deepCopy(v[i], memo)
		}
		return a
	case Slice:
		if v == nil {
			return v
		}
		a := make(Slice, len(v))
		for i := range a {
			a[i] = p.deepCopy(v[i], memo)
		}
		return a
	case *Value:
		if v == nil {
			return v
		}
		if c, ok := memo[v]; ok {
			return c
		}
		c := new(Value)
		memo[v] = c
		*c = p.deepCopy(*v, memo)
		return c
	case Iface:
		return Iface{T: v.T, V: p.deepCopy(v.V, memo)}
	case *Map:
		if v == nil {
			return v
		}
		m := newMap(v.kt)
		for _, e := range v.live() {
			p.mapInsert(m, p.deepCopy(e.k, memo), p.deepCopy(e.v, memo))
		}
		return m
	}
	return v
}

const blobMagic = "\x00JS\x01"

func extJSONMarshal(fr *frame, a []Value) Value {
	p := fr.p
	v := a[0].(Iface)
	// canonical: structurally identical values (same shapes, same terms) marshal to the same bytes, so that
	// code comparing marshalled forms (string(a) == string(b), hashes of documents) behaves as with real JSON
	key := p.canonKey(v)
	return Tuple{p.blobBytes(v, key), Iface{}}
}

// blobBytes registers (or finds) the snapshot of v and returns its 8-byte blob.
func (p *Path) blobBytes(v Iface, key string) Slice {
	if p.blobIndex == nil {
		p.blobIndex = map[string]int{}
	}
	id, seen := p.blobIndex[key]
	if !seen {
		id = len(p.blobs) + 1
		p.blobIndex[key] = id
		p.blobs = append(p.blobs, p.deepCopy(v, map[*Value]*Value{}).(Iface))
	}
	out := make(Slice, 8)
	for i := 0; i < 4; i++ {
		out[i] = p.w.tt.BVC(8, uint64(blobMagic[i]))
	}
	for i := 0; i < 4; i++ {
		out[4+i] = p.w.tt.BVC(8, uint64(byte(id>>(8*uint(3-i)))))
	}
	return out
}

// structMembers: the blob of a struct (or pointer to one) decoded into map[string]json.RawMessage - the member
// names follow encoding/json's rules for struct fields (tag name, "-", omitempty; embedded fields and symbolic
// emptiness are not supported), each value is the blob of the field value. Custom MarshalJSON methods are
// bypassed, as everywhere in the identity codec.
func (p *Path) structMembers(src Iface, mt *types.Map) (*Map, bool) {
	if b, ok := mt.Key().Underlying().(*types.Basic); !ok || b.Kind() != types.String {
		return nil, false
	}
	if sl, ok := mt.Elem().Underlying().(*types.Slice); !ok {
		return nil, false
	} else if eb, ok := sl.Elem().Underlying().(*types.Basic); !ok || eb.Kind() != types.Uint8 {
		return nil, false
	}
	T := src.T
	v := src.V
	if pt, ok := T.Underlying().(*types.Pointer); ok {
		pv, _ := v.(*Value)
		if pv == nil {
			return nil, false
		}
		T, v = pt.Elem(), *pv
	}
	st, ok := T.Underlying().(*types.Struct)
	if !ok {
		return nil, false
	}
	sv, ok := v.(Struct)
	if !ok {
		return nil, false
	}
	m := newMap(mt.Key())
	for i := 0; i < st.NumFields(); i++ {
		f := st.Field(i)
		if !f.Exported() {
			continue
		}
		if f.Embedded() {
			return nil, false
		}
		name, omitempty := f.Name(), false
		if tag, ok := reflect.StructTag(st.Tag(i)).Lookup("json"); ok {
			parts := strings.Split(tag, ",")
			if parts[0] == "-" && len(parts) == 1 {
				continue
			}
			if parts[0] != "" {
				name = parts[0]
			}
			for _, o := range parts[1:] {
				omitempty = omitempty || o == "omitempty"
			}
		}
		if omitempty {
			empty, known := jsonEmpty(sv[i])
			if !known {
				return nil, false
			}
			if empty {
				continue
			}
		}
		fv := Iface{T: f.Type(), V: sv[i]}
		p.mapInsert(m, Str{S: name}, p.blobBytes(fv, p.canonKey(fv)))
	}
	return m, true
}

// jsonEmpty: encoding/json's notion of an empty value (false, 0, nil pointer / interface, empty array, slice,
// map, string); known=false if it depends on a symbolic value.
func jsonEmpty(v Value) (empty, known bool) {
	switch x := v.(type) {
	case nil:
		return true, true
	case *Term:
		if !x.IsConst() {
			return false, false
		}
		return x.C == 0, true
	case Str:
		if x.B != nil {
			return len(x.B) == 0, true
		}
		return len(x.S) == 0, true
	case *Value:
		return x == nil, true
	case Iface:
		return x.T == nil, true
	case Slice:
		return len(x) == 0, true
	case Array:
		return len(x) == 0, true
	case *Map:
		return x == nil || len(x.live()) == 0, true
	}
	return false, true
}

func (p *Path) blobOf(data Slice) (Iface, bool) {
	if len(data) != 8 {
		return Iface{}, false
	}
	id := 0
	for i := 0; i < 8; i++ {
		t := data[i].(*Term)
		if !t.IsConst() {
			return Iface{}, false
		}
		if i < 4 {
			if byte(t.C) != blobMagic[i] {
				return Iface{}, false
			}
		} else {
			id = id<<8 | int(t.C)
		}
	}
	if id < 1 || id > len(p.blobs) {
		return Iface{}, false
	}
	return p.blobs[id-1], true
}

func extJSONUnmarshal(fr *frame, a []Value) Value {
	p := fr.p
	w := fr.w
	data := a[0].(Slice)
	target := a[1].(Iface)
	blob, ok := p.blobOf(data)
	if !ok {
		return w.newError(Str{S: "invalid character looking for beginning of value (not a value stored by the harness JSON codec)"})
	}
	if target.T == nil {
		return w.newError(Str{S: "json: Unmarshal(nil)"})
	}
	pt, isPtr := target.T.Underlying().(*types.Pointer)
	if !isPtr || target.V.(*Value) == nil {
		return w.newError(Str{S: "json: Unmarshal(non-pointer)"})
	}
	et := pt.Elem()
	src := p.deepCopy(blob, map[*Value]*Value{}).(Iface)
	cell := target.V.(*Value)
	switch {
	case src.T == nil:
		store(et, cell, w.zero(et))
	case types.Identical(src.T, et):
		store(et, cell, src.V)
	case isPointerTo(src.T, et):
		// marshalled *T, unmarshalling into T
		sp := src.V.(*Value)
		if sp == nil {
			store(et, cell, w.zero(et))
		} else {
			store(et, cell, *sp)
		}
	case isPointerTo(et, src.T):
		// marshalled T, unmarshalling into *T
		nv := new(Value)
		*nv = src.V
		store(et, cell, nv)
	default:
		if _, isI := et.Underlying().(*types.Interface); isI && types.AssignableTo(src.T, et) {
			store(et, cell, src)
			break
		}
		if mt, isMap := et.Underlying().(*types.Map); isMap {
			if m, ok := p.structMembers(src, mt); ok {
				store(et, cell, m)
				break
			}
		}
		p.unsupported("JSON identity codec: value of type %v unmarshalled into %v", src.T, et)
	}
	return Iface{}
}

func isPointerTo(pt, t types.Type) bool {
	pp, ok := pt.Underlying().(*types.Pointer)
	return ok && types.Identical(pp.Elem(), t)
}

// sha256 / sha1: concrete inputs are hashed for real; symbolic inputs yield uninterpreted
// functions of the input bytes (one UF per output byte and input length).
func (p *Path) hashBytes(name string, outLen int, in []*Term, conc func([]byte) []byte) Array {
	tt := p.w.tt
	allConc := true
	for _, b := range in {
		if !b.IsConst() {
			allConc = false
			break
		}
	}
	out := make(Array, outLen)
	if allConc {
		bs := make([]byte, len(in))
		for i, b := range in {
			bs[i] = byte(b.C)
		}
		h := conc(bs)
		for i := range out {
			out[i] = tt.BVC(8, uint64(h[i]))
		}
		return out
	}
	// digest of a symbolic message: split into 4 UF words to keep terms small
	for i := range out {
		out[i] = tt.UF(fmt.Sprintf("%s_n%d_b%d", name, len(in), i), BV(8), in...)
	}
	return out
}

func extSha256Sum(fr *frame, a []Value) Value {
	return fr.p.hashBytes("sha256", 32, sliceBytes(a[0].(Slice)), func(b []byte) []byte { h := sha256.Sum256(b); return h[:] })
}

func extSha1Sum(fr *frame, a []Value) Value {
	return fr.p.hashBytes("sha1", 20, sliceBytes(a[0].(Slice)), func(b []byte) []byte { h := sha1.Sum(b); return h[:] })
}

func init() {
	intrinsics["encoding/json.Marshal"] = extJSONMarshal
	intrinsics["encoding/json.Unmarshal"] = extJSONUnmarshal
	intrinsics["crypto/sha256.Sum256"] = extSha256Sum
	intrinsics["crypto/sha1.Sum"] = extSha1Sum
	// context: cancellation machinery is not modelled; contexts never expire
	intrinsics["context.WithCancel"] = func(fr *frame, a []Value) Value {
		noop := fr.w.hpkgNoop()
		return Tuple{a[0], noop}
	}
	intrinsics["context.WithTimeout"] = func(fr *frame, a []Value) Value {
		return Tuple{a[0], fr.w.hpkgNoop()}
	}
	intrinsics["context.WithDeadline"] = func(fr *frame, a []Value) Value {
		return Tuple{a[0], fr.w.hpkgNoop()}
	}
	// prometheus counters: no-ops
	for _, n := range []string{"Inc", "Add"} {
		intrinsics["(*github.com/prometheus/client_golang/prometheus.counter)."+n] = extNoop
	}
}

// hpkgNoop returns a func() value that does nothing (a synthetic closure over the noop intrinsic).
func (w *Worker) hpkgNoop() Value {
	return &Closure{Fn: noopFn(w)}
}

var noopFnCache = map[*ssa.Program]*ssa.Function{}

func noopFn(w *Worker) *ssa.Function {
	// any function with signature func() and no effect: use sync.(*Once) ... not available; use runtime.GC intrinsic
	if rt := w.prog.ImportedPackage("runtime"); rt != nil {
		if f := rt.Func("GC"); f != nil {
			return f
		}
	}
	panic("no noop function available")
}

// canonKey renders a value graph canonically: pointers are followed (cycles cut), symbolic scalars are
// identified by their term id, map entries are sorted by key rendering.
func (p *Path) canonKey(v Value) string {
	seen := map[*Value]bool{}
	var rec func(sb *strings.Builder, v Value, d int)
	rec = func(sb *strings.Builder, v Value, d int) {
		if d > 40 {
			sb.WriteString("…")
			return
		}
		switch v := v.(type) {
		case nil:
			sb.WriteString("nil;")
		case *Term:
			if v.IsConst() {
				if v.Sort.K == KFP {
					fmt.Fprintf(sb, "f%v;", v.F)
				} else {
					fmt.Fprintf(sb, "%d;", v.C)
				}
			} else {
				fmt.Fprintf(sb, "t%d;", v.id)
			}
		case Str:
			if v.IsConc() {
				s := v.Conc()
				fmt.Fprintf(sb, "s%d:%s;", len(s), s)
			} else {
				sb.WriteString("S[")
				for _, b := range v.B {
					rec(sb, b, d+1)
				}
				sb.WriteString("]")
			}
		case *Value:
			if v == nil {
				sb.WriteString("nilp;")
			} else if seen[v] {
				sb.WriteString("cyc;")
			} else {
				seen[v] = true
				sb.WriteString("&")
				rec(sb, *v, d+1)
				delete(seen, v)
			}
		case Struct:
			sb.WriteString("{")
			for _, f := range v {
				rec(sb, f, d+1)
			}
			sb.WriteString("}")
		case Array:
			sb.WriteString("[")
			for _, f := range v {
				rec(sb, f, d+1)
			}
			sb.WriteString("]")
		case Slice:
			if v == nil {
				sb.WriteString("nils;")
			} else {
				fmt.Fprintf(sb, "sl%d[", len(v))
				for _, f := range v {
					rec(sb, f, d+1)
				}
				sb.WriteString("]")
			}
		case Iface:
			if v.T == nil {
				sb.WriteString("nili;")
			} else {
				sb.WriteString("i<" + v.T.String() + ">")
				rec(sb, v.V, d+1)
			}
		case *Map:
			if v == nil {
				sb.WriteString("nilm;")
			} else {
				var parts []string
				for _, e := range v.live() {
					var inner strings.Builder
					rec(&inner, e.k, d+1)
					inner.WriteString("=>")
					rec(&inner, e.v, d+1)
					parts = append(parts, inner.String())
				}
				sort.Strings(parts)
				sb.WriteString("m{" + strings.Join(parts, ",") + "}")
			}
		case RType:
			sb.WriteString("rt<" + v.T.String() + ">")
		default:
			fmt.Fprintf(sb, "%T:%p;", v, v)
		}
	}
	var out strings.Builder
	rec(&out, v, 0)
	return out.String()
}
