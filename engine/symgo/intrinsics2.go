package symgo

import (
	"crypto/sha1"
	"crypto/sha256"
	"fmt"
	"go/types"

	"golang.org/x/tools/go/ssa"
)

// JSON identity codec: Marshal yields an opaque 8-byte blob that denotes a deep snapshot
// of the marshalled value; Unmarshal of such a blob into a pointer to the same type copies
// the snapshot back. Assumption (stated in every evidence file that uses it): JSON
// round-trips the value; custom (Un)MarshalJSON methods are bypassed.

func (p *Path) deepCopy(v Value, memo map[*Value]*Value) Value {
	switch v := v.(type) {
	case Struct:
		a := make(Struct, len(v))
		for i := range a {
			a[i] = p.deepCopy(v[i], memo)
		}
		return a
	case Array:
		a := make(Array, len(v))
		for i := range a {
			a[i] = p.deepCopy(v[i], memo)
		}
		return a
	case Slice:
		if v == nil {
			return v
		}
		a := make(Slice, len(v))
		for i := range a {
			a[i] = p.deepCopy(v[i], memo)
		}
		return a
	case *Value:
		if v == nil {
			return v
		}
		if c, ok := memo[v]; ok {
			return c
		}
		c := new(Value)
		memo[v] = c
		*c = p.deepCopy(*v, memo)
		return c
	case Iface:
		return Iface{T: v.T, V: p.deepCopy(v.V, memo)}
	case *Map:
		if v == nil {
			return v
		}
		m := newMap(v.kt)
		for _, e := range v.live() {
			p.mapInsert(m, p.deepCopy(e.k, memo), p.deepCopy(e.v, memo))
		}
		return m
	}
	return v
}

const blobMagic = "\x00JS\x01"

func extJSONMarshal(fr *frame, a []Value) Value {
	p := fr.p
	v := a[0].(Iface)
	id := len(p.blobs) + 1
	p.blobs = append(p.blobs, p.deepCopy(v, map[*Value]*Value{}).(Iface))
	out := make(Slice, 8)
	for i := 0; i < 4; i++ {
		out[i] = fr.w.tt.BVC(8, uint64(blobMagic[i]))
	}
	for i := 0; i < 4; i++ {
		out[4+i] = fr.w.tt.BVC(8, uint64(byte(id>>(8*uint(3-i)))))
	}
	return Tuple{out, Iface{}}
}

func (p *Path) blobOf(data Slice) (Iface, bool) {
	if len(data) != 8 {
		return Iface{}, false
	}
	id := 0
	for i := 0; i < 8; i++ {
		t := data[i].(*Term)
		if !t.IsConst() {
			return Iface{}, false
		}
		if i < 4 {
			if byte(t.C) != blobMagic[i] {
				return Iface{}, false
			}
		} else {
			id = id<<8 | int(t.C)
		}
	}
	if id < 1 || id > len(p.blobs) {
		return Iface{}, false
	}
	return p.blobs[id-1], true
}

func extJSONUnmarshal(fr *frame, a []Value) Value {
	p := fr.p
	w := fr.w
	data := a[0].(Slice)
	target := a[1].(Iface)
	blob, ok := p.blobOf(data)
	if !ok {
		return w.newError(Str{S: "invalid character looking for beginning of value (not a value stored by the harness JSON codec)"})
	}
	if target.T == nil {
		return w.newError(Str{S: "json: Unmarshal(nil)"})
	}
	pt, isPtr := target.T.Underlying().(*types.Pointer)
	if !isPtr || target.V.(*Value) == nil {
		return w.newError(Str{S: "json: Unmarshal(non-pointer)"})
	}
	et := pt.Elem()
	src := p.deepCopy(blob, map[*Value]*Value{}).(Iface)
	cell := target.V.(*Value)
	switch {
	case src.T == nil:
		store(et, cell, w.zero(et))
	case types.Identical(src.T, et):
		store(et, cell, src.V)
	case isPointerTo(src.T, et):
		// marshalled *T, unmarshalling into T
		sp := src.V.(*Value)
		if sp == nil {
			store(et, cell, w.zero(et))
		} else {
			store(et, cell, *sp)
		}
	case isPointerTo(et, src.T):
		// marshalled T, unmarshalling into *T
		nv := new(Value)
		*nv = src.V
		store(et, cell, nv)
	default:
		if _, isI := et.Underlying().(*types.Interface); isI && types.AssignableTo(src.T, et) {
			store(et, cell, src)
			break
		}
		p.unsupported("JSON identity codec: value of type %v unmarshalled into %v", src.T, et)
	}
	return Iface{}
}

func isPointerTo(pt, t types.Type) bool {
	pp, ok := pt.Underlying().(*types.Pointer)
	return ok && types.Identical(pp.Elem(), t)
}

// sha256 / sha1: concrete inputs are hashed for real; symbolic inputs yield uninterpreted
// functions of the input bytes (one UF per output byte and input length).
func (p *Path) hashBytes(name string, outLen int, in []*Term, conc func([]byte) []byte) Array {
	tt := p.w.tt
	allConc := true
	for _, b := range in {
		if !b.IsConst() {
			allConc = false
			break
		}
	}
	out := make(Array, outLen)
	if allConc {
		bs := make([]byte, len(in))
		for i, b := range in {
			bs[i] = byte(b.C)
		}
		h := conc(bs)
		for i := range out {
			out[i] = tt.BVC(8, uint64(h[i]))
		}
		return out
	}
	// digest of a symbolic message: split into 4 UF words to keep terms small
	for i := range out {
		out[i] = tt.UF(fmt.Sprintf("%s_n%d_b%d", name, len(in), i), BV(8), in...)
	}
	return out
}

func extSha256Sum(fr *frame, a []Value) Value {
	return fr.p.hashBytes("sha256", 32, sliceBytes(a[0].(Slice)), func(b []byte) []byte { h := sha256.Sum256(b); return h[:] })
}

func extSha1Sum(fr *frame, a []Value) Value {
	return fr.p.hashBytes("sha1", 20, sliceBytes(a[0].(Slice)), func(b []byte) []byte { h := sha1.Sum(b); return h[:] })
}

func init() {
	intrinsics["encoding/json.Marshal"] = extJSONMarshal
	intrinsics["encoding/json.Unmarshal"] = extJSONUnmarshal
	intrinsics["crypto/sha256.Sum256"] = extSha256Sum
	intrinsics["crypto/sha1.Sum"] = extSha1Sum
	// context: cancellation machinery is not modelled; contexts never expire
	intrinsics["context.WithCancel"] = func(fr *frame, a []Value) Value {
		noop := fr.w.hpkgNoop()
		return Tuple{a[0], noop}
	}
	intrinsics["context.WithTimeout"] = func(fr *frame, a []Value) Value {
		return Tuple{a[0], fr.w.hpkgNoop()}
	}
	intrinsics["context.WithDeadline"] = func(fr *frame, a []Value) Value {
		return Tuple{a[0], fr.w.hpkgNoop()}
	}
	// prometheus counters: no-ops
	for _, n := range []string{"Inc", "Add"} {
		intrinsics["(*github.com/prometheus/client_golang/prometheus.counter)."+n] = extNoop
	}
}

// hpkgNoop returns a func() value that does nothing (a synthetic closure over the noop intrinsic).
func (w *Worker) hpkgNoop() Value {
	return &Closure{Fn: noopFn(w)}
}

var noopFnCache = map[*ssa.Program]*ssa.Function{}

func noopFn(w *Worker) *ssa.Function {
	// any function with signature func() and no effect: use sync.(*Once) ... not available; use runtime.GC intrinsic
	if rt := w.prog.ImportedPackage("runtime"); rt != nil {
		if f := rt.Func("GC"); f != nil {
			return f
		}
	}
	panic("no noop function available")
}
