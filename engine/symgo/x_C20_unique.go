package symgo

import (
	"go/types"
	"sync"
)

// unique.Make, second model (replaces the registration of x_C18_unique.go; this file's init runs later).
//
// Problem with the first model: the table of interned concrete values is per worker and survives paths, and a value with
// symbolic content was compared against *every* concrete value the worker had ever interned. A concrete value interned
// by an unrelated earlier path or job (e.g. a seeded translator-validation job of `check`, which runs in the same
// process: net/netip.Addr.WithZone("x") with a concrete zone) then made a later, unrelated symbolic Make of the same type
// and shape (WithZone of a symbolic 1-byte zone) end as "unsupported: equality ... is not decided" - depending on the
// worker's history, i.e. non-deterministically.
//
// Handles that exist on a path can only stem from (a) Make calls executed on this path, or (b) package-level variables
// set by package initialisers (which may have run on an earlier path of the worker). So a value is compared only with
// the values of (a) and (b); values interned by other paths are unreachable from this path and are ignored. Where the
// equality with a relevant value is a genuinely symbolic condition, the path forks on it (Path.branch) instead of giving
// up; the fork is deterministic under prefix replay because the list of relevant values is determined by the path itself
// (and by the deterministic initialisers).
//
// Concrete values keep one canonical cell per worker (never written after creation, so sharing across paths is safe).

type uniq2Entry struct {
	t   types.Type
	v   Value
	ptr *Value
}

type uniq2Table struct {
	conc  map[string]*Value // type string + concKey -> canonical cell (per worker)
	init  []uniq2Entry      // made while a package initialiser was running
	path  *Path             // owner of local
	local []uniq2Entry      // made on the current path (outside initialisers), concrete and symbolic
}

var (
	uniq2Mu     sync.Mutex
	uniq2Tables = map[*Worker]*uniq2Table{}
)

func uniq2TableOf(w *Worker) *uniq2Table {
	uniq2Mu.Lock()
	defer uniq2Mu.Unlock()
	t := uniq2Tables[w]
	if t == nil {
		t = &uniq2Table{conc: map[string]*Value{}}
		uniq2Tables[w] = t
	}
	return t
}

func extUniqueMake2(fr *frame, a []Value) Value {
	w, p := fr.w, fr.p
	targs := fr.fn.TypeArgs()
	if len(targs) != 1 {
		p.unsupported("unique.Make: uninstantiated")
	}
	T := targs[0]
	if !types.Comparable(T) {
		p.unsupported("unique.Make: type %v is not comparable", T)
	}
	v := copyVal(a[0])
	tab := uniq2TableOf(w)
	if tab.path != p {
		tab.path, tab.local = p, nil
	}
	record := func(cell *Value) Value {
		e := uniq2Entry{T, v, cell}
		if w.inInit > 0 {
			tab.init = append(tab.init, e)
		} else {
			tab.local = append(tab.local, e)
		}
		return Struct{cell}
	}
	key, isConc := concKey(v)
	key = T.String() + "|" + key
	// relevant earlier values: initialiser-made and path-local
	for _, list := range [][]uniq2Entry{tab.init, tab.local} {
		for _, e := range list {
			if !types.Identical(e.t, T) {
				continue
			}
			eq := w.equals(T, v, e.v)
			if eq.IsFalse() {
				continue
			}
			if eq.IsTrue() || p.branch(eq) {
				return Struct{e.ptr}
			}
		}
	}
	if isConc {
		cell := tab.conc[key]
		if cell == nil {
			cell = new(Value)
			*cell = copyVal(v)
			tab.conc[key] = cell
		}
		return record(cell)
	}
	cell := new(Value)
	*cell = copyVal(v)
	return record(cell)
}

func init() {
	intrinsics["unique.Make"] = extUniqueMake2
}
