package symgo

import (
	"go/types"
	"sync"
)

// Package unique (Go 1.23): unique.Make[T](v) returns a Handle[T] = struct{ value *T } such that two
// handles compare equal iff the values they were made from are equal. The real implementation uses
// runtime type descriptors, a concurrent hash trie and weak pointers (not interpretable). It is needed by
// net/netip (package initialisation: z4 = unique.Make(addrDetail{}), z6noz = ...; Addr.WithZone), hence by
// net.ParseIP and net/url's host validation.
//
// Model: a canonicalisation table. Fully concrete values are interned per worker (keyed by type and
// canonical rendering of the value; the cells are never written, so sharing across paths is safe).
// A value with symbolic content is compared structurally (Worker.equals) against every interned value of
// the same type and against the symbolic values made earlier on the same path: provably equal => that
// handle is reused; provably different from all => a fresh handle; otherwise (the equality is a genuinely
// symbolic condition) the path ends as unsupported rather than guessing.

type uniqueEntry struct {
	t   types.Type
	v   Value
	ptr *Value
}

type uniqueTable struct {
	conc    map[string]*Value // type string + concKey -> canonical cell
	concAll []uniqueEntry
	path    *Path // owner of sym
	sym     []uniqueEntry
}

var (
	uniqueMu     sync.Mutex
	uniqueTables = map[*Worker]*uniqueTable{}
)

func uniqueTableOf(w *Worker) *uniqueTable {
	uniqueMu.Lock()
	defer uniqueMu.Unlock()
	t := uniqueTables[w]
	if t == nil {
		t = &uniqueTable{conc: map[string]*Value{}}
		uniqueTables[w] = t
	}
	return t
}

func extUniqueMake(fr *frame, a []Value) Value {
	w, p := fr.w, fr.p
	targs := fr.fn.TypeArgs()
	if len(targs) != 1 {
		p.unsupported("unique.Make: uninstantiated")
	}
	T := targs[0]
	if !types.Comparable(T) {
		p.unsupported("unique.Make: type %v is not comparable", T)
	}
	v := copyVal(a[0])
	tab := uniqueTableOf(w)
	if tab.path != p {
		tab.path, tab.sym = p, nil
	}
	mk := func() *Value {
		cell := new(Value)
		*cell = copyVal(v)
		return cell
	}
	if k, ok := concKey(v); ok {
		key := T.String() + "|" + k
		cell := tab.conc[key]
		if cell == nil {
			// a concrete value may still equal a symbolic one made earlier on this path
			for _, e := range tab.sym {
				if !types.Identical(e.t, T) {
					continue
				}
				eq := w.equals(T, v, e.v)
				if eq.IsTrue() {
					return Struct{e.ptr}
				}
				if !eq.IsFalse() {
					p.unsupported("unique.Make: equality with an earlier symbolic value of type %v is not decided", T)
				}
			}
			cell = mk()
			tab.conc[key] = cell
			tab.concAll = append(tab.concAll, uniqueEntry{T, v, cell})
		}
		return Struct{cell}
	}
	for _, list := range [][]uniqueEntry{tab.concAll, tab.sym} {
		for _, e := range list {
			if !types.Identical(e.t, T) {
				continue
			}
			eq := w.equals(T, v, e.v)
			if eq.IsTrue() {
				return Struct{e.ptr}
			}
			if !eq.IsFalse() {
				p.unsupported("unique.Make: equality of a symbolic value of type %v with an interned value is not decided", T)
			}
		}
	}
	cell := mk()
	tab.sym = append(tab.sym, uniqueEntry{T, v, cell})
	return Struct{cell}
}

func init() {
	intrinsics["unique.Make"] = extUniqueMake
}
