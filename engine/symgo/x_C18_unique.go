package symgo

import (
	"go/types"
	"sync"
)

// Package unique (Go 1.23): unique.Make[T](v) returns a Handle[T] = struct{ value *T } such that two
// handles compare equal iff the values they were made from are equal. The real implementation uses
// runtime type descriptors, a concurrent hash trie and weak pointers (not interpretable). It is needed by
// net/netip (package initialisation: z4 = unique.Make(addrDetail{}), z6noz = ...; Addr.WithZone), hence by
// net.ParseIP and net/url's host validation.
//
// Model: a canonicalisation table. A new value is compared structurally (Worker.equals) with every value of
// the same type made before; where the equality is a symbolic condition the path forks on it (Path.branch),
// so a handle is reused exactly on the paths on which the values are equal. Values made during package
// initialisation stay in the table as long as the worker lives (their handles sit in package-level
// variables); values made on a path are dropped when the path ends. What a path sees is therefore a function
// of the path alone, as replay by decision prefix requires.

type uniqueEntry struct {
	t   types.Type
	v   Value
	ptr *Value
}

type uniqueTable struct {
	perm []uniqueEntry // made inside package initialisers
	path *Path         // owner of cur
	cur  []uniqueEntry // made on the current path
}

var (
	uniqueMu     sync.Mutex
	uniqueTables = map[*Worker]*uniqueTable{}
)

func uniqueTableOf(w *Worker) *uniqueTable {
	uniqueMu.Lock()
	defer uniqueMu.Unlock()
	t := uniqueTables[w]
	if t == nil {
		t = &uniqueTable{}
		uniqueTables[w] = t
	}
	return t
}

func extUniqueMake(fr *frame, a []Value) Value {
	w, p := fr.w, fr.p
	targs := fr.fn.TypeArgs()
	if len(targs) != 1 {
		p.unsupported("unique.Make: uninstantiated")
	}
	T := targs[0]
	if !types.Comparable(T) {
		p.unsupported("unique.Make: type %v is not comparable", T)
	}
	v := copyVal(a[0])
	tab := uniqueTableOf(w)
	if tab.path != p {
		tab.path, tab.cur = p, nil
	}
	for _, list := range [][]uniqueEntry{tab.perm, tab.cur} {
		for _, e := range list {
			if !types.Identical(e.t, T) {
				continue
			}
			if p.branch(w.equals(T, v, e.v)) {
				return Struct{e.ptr}
			}
		}
	}
	cell := new(Value)
	*cell = copyVal(v)
	ent := uniqueEntry{T, v, cell}
	if w.inInit > 0 {
		tab.perm = append(tab.perm, ent)
	} else {
		tab.cur = append(tab.cur, ent)
	}
	return Struct{cell}
}

func init() {
	intrinsics["unique.Make"] = extUniqueMake
}
