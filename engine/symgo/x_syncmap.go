package symgo

import (
	"go/token"
	"go/types"
)

// sync.Map: the real implementation (read-only snapshot behind an atomic pointer, dirty map, expunged
// markers, internal/race hooks) is not interpreted - its documented contract is modelled instead: every
// method is one linearizable step on a map[any]any. Each method is a scheduling point (like an atomic
// operation), so two goroutines racing on LoadOrStore / LoadAndDelete / Delete are explored in every order
// within the preemption bound.
//
// State: the engine-level association list (*Map, keys of type any, values stored as interface values) is
// kept in the struct's own `dirty` field (index 2 of sync.Map{mu, read, dirty, misses}); no interpreted
// code reads that field because every method of the type is an intrinsic. Updates are copy-on-write and go
// through Path.setCell, so the undo log restores a package-level sync.Map after the path.

var anyType = types.NewInterfaceType(nil, nil).Complete()

const syncMapDirtyField = 2

func syncMapCell(fr *frame, recv Value, what string) *Value {
	nilRecv(recv, "sync.Map."+what)
	s := structOf(recv)
	if len(s) <= syncMapDirtyField {
		fr.p.unsupported("sync.Map: unexpected layout")
	}
	if !syncInternal(fr) {
		fr.p.yield("sync.Map." + what)
	}
	return &s[syncMapDirtyField]
}

func syncMapOf(cell *Value) *Map {
	m, _ := (*cell).(*Map)
	return m
}

// syncMapClone returns a private copy (entries are copied, deleted ones dropped).
func syncMapClone(m *Map) *Map {
	n := newMap(anyType)
	if m == nil {
		return n
	}
	for _, e := range m.entries {
		if e.deleted {
			continue
		}
		ne := &mapEntry{k: e.k, v: e.v}
		n.entries = append(n.entries, ne)
		n.n++
		if ck, ok := concKey(e.k); ok {
			n.index[ck] = len(n.entries) - 1
		} else {
			n.nsym++
		}
	}
	return n
}

func asIface(v Value) Iface {
	if i, ok := v.(Iface); ok {
		return i
	}
	return Iface{}
}

func extSyncMapLoad(fr *frame, a []Value) Value {
	cell := syncMapCell(fr, a[0], "Load")
	if e := fr.p.mapFind(syncMapOf(cell), a[1]); e != nil {
		return Tuple{copyVal(e.v), fr.w.tt.True}
	}
	return Tuple{Iface{}, fr.w.tt.False}
}

func extSyncMapStore(fr *frame, a []Value) Value {
	cell := syncMapCell(fr, a[0], "Store")
	n := syncMapClone(syncMapOf(cell))
	fr.p.mapInsert(n, a[1], asIface(a[2]))
	fr.p.setCell(cell, n)
	return nil
}

func extSyncMapLoadOrStore(fr *frame, a []Value) Value {
	cell := syncMapCell(fr, a[0], "LoadOrStore")
	if e := fr.p.mapFind(syncMapOf(cell), a[1]); e != nil {
		return Tuple{copyVal(e.v), fr.w.tt.True}
	}
	n := syncMapClone(syncMapOf(cell))
	fr.p.mapInsert(n, a[1], asIface(a[2]))
	fr.p.setCell(cell, n)
	return Tuple{copyVal(a[2]), fr.w.tt.False}
}

func extSyncMapLoadAndDelete(fr *frame, a []Value) Value {
	cell := syncMapCell(fr, a[0], "LoadAndDelete")
	e := fr.p.mapFind(syncMapOf(cell), a[1])
	if e == nil {
		return Tuple{Iface{}, fr.w.tt.False}
	}
	old := copyVal(e.v)
	n := syncMapClone(syncMapOf(cell))
	fr.p.mapDelete(n, e.k)
	fr.p.setCell(cell, n)
	return Tuple{old, fr.w.tt.True}
}

func extSyncMapDelete(fr *frame, a []Value) Value {
	extSyncMapLoadAndDelete(fr, a)
	return nil
}

func extSyncMapSwap(fr *frame, a []Value) Value {
	cell := syncMapCell(fr, a[0], "Swap")
	var prev Value = Iface{}
	loaded := fr.w.tt.False
	if e := fr.p.mapFind(syncMapOf(cell), a[1]); e != nil {
		prev, loaded = copyVal(e.v), fr.w.tt.True
	}
	n := syncMapClone(syncMapOf(cell))
	fr.p.mapInsert(n, a[1], asIface(a[2]))
	fr.p.setCell(cell, n)
	return Tuple{prev, loaded}
}

func extSyncMapCompareAndSwap(fr *frame, a []Value) Value {
	cell := syncMapCell(fr, a[0], "CompareAndSwap")
	e := fr.p.mapFind(syncMapOf(cell), a[1])
	if e == nil {
		return fr.w.tt.False
	}
	if !fr.p.branch(fr.w.equals(anyType, e.v, asIface(a[2]))) {
		return fr.w.tt.False
	}
	n := syncMapClone(syncMapOf(cell))
	fr.p.mapInsert(n, e.k, asIface(a[3]))
	fr.p.setCell(cell, n)
	return fr.w.tt.True
}

func extSyncMapCompareAndDelete(fr *frame, a []Value) Value {
	cell := syncMapCell(fr, a[0], "CompareAndDelete")
	e := fr.p.mapFind(syncMapOf(cell), a[1])
	if e == nil {
		return fr.w.tt.False
	}
	if !fr.p.branch(fr.w.equals(anyType, e.v, asIface(a[2]))) {
		return fr.w.tt.False
	}
	n := syncMapClone(syncMapOf(cell))
	fr.p.mapDelete(n, e.k)
	fr.p.setCell(cell, n)
	return fr.w.tt.True
}

func extSyncMapClear(fr *frame, a []Value) Value {
	cell := syncMapCell(fr, a[0], "Clear")
	fr.p.setCell(cell, newMap(anyType))
	return nil
}

// Range: iterates over a snapshot taken at the call (the documented contract allows any consistent or
// inconsistent snapshot; the snapshot at the call is one admissible behaviour); the callback runs as
// ordinary interpreted code and may call back into the map.
func extSyncMapRange(fr *frame, a []Value) Value {
	cell := syncMapCell(fr, a[0], "Range")
	m := syncMapOf(cell)
	for _, e := range m.live() {
		r := fr.w.call(fr, token.NoPos, a[1], []Value{copyVal(e.k), copyVal(e.v)})
		t, ok := r.(*Term)
		if !ok {
			fr.p.unsupported("sync.Map.Range: callback result")
		}
		if !fr.p.branch(t) {
			break
		}
	}
	return nil
}

func init() {
	intrinsics["(*sync.Map).Load"] = extSyncMapLoad
	intrinsics["(*sync.Map).Store"] = extSyncMapStore
	intrinsics["(*sync.Map).LoadOrStore"] = extSyncMapLoadOrStore
	intrinsics["(*sync.Map).LoadAndDelete"] = extSyncMapLoadAndDelete
	intrinsics["(*sync.Map).Delete"] = extSyncMapDelete
	intrinsics["(*sync.Map).Swap"] = extSyncMapSwap
	intrinsics["(*sync.Map).CompareAndSwap"] = extSyncMapCompareAndSwap
	intrinsics["(*sync.Map).CompareAndDelete"] = extSyncMapCompareAndDelete
	intrinsics["(*sync.Map).Clear"] = extSyncMapClear
	intrinsics["(*sync.Map).Range"] = extSyncMapRange
}
