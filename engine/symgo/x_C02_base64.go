package symgo

// (*encoding/base64.Encoding).Encode for symbolic input.
//
// The real encoder looks every output symbol up with `enc.encode[val>>k&0x3F]` through a pointer
// (IndexAddr + load), which the interpreter concretises: a 64-way fork per output byte. This
// intrinsic performs the same algorithm (RFC 4648: 3 input bytes -> 4 six-bit groups, big endian;
// a final group of 1 or 2 bytes is zero-extended; optional padding) on terms and reads the
// alphabet from the receiver's own `encode` table with an if-then-else chain, so no path forks and
// every alphabet/padding combination created with base64.NewEncoding/WithPadding is honoured.
// Six-bit groups are formed with extract/concat only (valid in both integer encodings).

func extBase64Encode(fr *frame, a []Value) Value {
	tt := fr.w.tt
	nilRecv(a[0], "base64.Encoding.Encode")
	enc := structOf(a[0])
	table := enc[0].(Array)
	pad := enc[2].(*Term)
	dst := a[1].(Slice)
	src := sliceBytes(a[2].(Slice))
	if len(src) == 0 {
		return nil
	}
	if !pad.IsConst() {
		fr.p.unsupported("base64: symbolic padding character")
	}
	noPadding := int32(pad.C) == -1
	// The alphabet as maximal runs table[i] = table[start] + (i - start): five runs for the RFC 4648
	// alphabets, at worst 64 runs of length one for an arbitrary alphabet.
	for _, e := range table {
		if t, ok := e.(*Term); !ok || !t.IsConst() {
			fr.p.unsupported("base64: symbolic alphabet")
		}
	}
	type run struct{ start, end int } // [start, end)
	var runs []run
	for i := 0; i < 64; {
		j := i + 1
		for j < 64 && table[j].(*Term).C == table[j-1].(*Term).C+1 {
			j++
		}
		runs = append(runs, run{i, j})
		i = j
	}
	lookup := func(v *Term) *Term { // v: 6-bit group
		if v.IsConst() {
			return table[int(v.C)].(*Term)
		}
		v8 := tt.ZeroExt(v, 8)
		sym := func(r run) *Term { // table[start] + (v - start)  (mod 256)
			return tt.Add(v8, tt.BVC(8, table[r.start].(*Term).C-uint64(r.start)))
		}
		res := sym(runs[len(runs)-1])
		for k := len(runs) - 2; k >= 0; k-- {
			res = tt.Ite(tt.ULT(v, tt.BVC(6, uint64(runs[k].end))), sym(runs[k]), res)
		}
		return res
	}
	put := func(i int, t *Term) {
		if i >= len(dst) {
			panic(runtimePanic("index out of range (base64 Encode: dst too short)"))
		}
		dst[i] = t
	}
	di, si := 0, 0
	n := (len(src) / 3) * 3
	for si < n {
		b0, b1, b2 := src[si], src[si+1], src[si+2]
		put(di+0, lookup(tt.Extract(b0, 7, 2)))
		put(di+1, lookup(tt.Concat(tt.Extract(b0, 1, 0), tt.Extract(b1, 7, 4))))
		put(di+2, lookup(tt.Concat(tt.Extract(b1, 3, 0), tt.Extract(b2, 7, 6))))
		put(di+3, lookup(tt.Extract(b2, 5, 0)))
		si += 3
		di += 4
	}
	remain := len(src) - si
	if remain == 0 {
		return nil
	}
	b0 := src[si]
	b1 := tt.BVC(8, 0)
	if remain == 2 {
		b1 = src[si+1]
	}
	put(di+0, lookup(tt.Extract(b0, 7, 2)))
	put(di+1, lookup(tt.Concat(tt.Extract(b0, 1, 0), tt.Extract(b1, 7, 4))))
	padByte := tt.BVC(8, pad.C&0xff)
	switch remain {
	case 2:
		put(di+2, lookup(tt.Concat(tt.Extract(b1, 3, 0), tt.BVC(2, 0))))
		if !noPadding {
			put(di+3, padByte)
		}
	case 1:
		if !noPadding {
			put(di+2, padByte)
			put(di+3, padByte)
		}
	}
	return nil
}

func init() {
	intrinsics["(*encoding/base64.Encoding).Encode"] = extBase64Encode
}
