package symgo

import (
	"fmt"
	"go/types"
	"os"
	"path/filepath"
	"regexp"
	"strings"

	"golang.org/x/tools/go/packages"
	"golang.org/x/tools/go/ssa"
	"golang.org/x/tools/go/ssa/ssautil"
)

// RuntimeDecls is the harness runtime API as bodiless declarations (symbolic side).
const RuntimeDecls = `//go:build verif

package %s

func vBool() bool
func vU8() uint8
func vU16() uint16
func vU32() uint32
func vU64() uint64
func vI8() int8
func vI16() int16
func vI32() int32
func vI64() int64
func vInt() int
func vF64() float64
func vRange(lo, hi int) int
func vLen(lo, hi int) int
func vChoice(n int) int
func vBytes(n int) []byte
func vString(n int) string
func vAssume(c bool)
func vAssert(c bool, msg string)
func vCover(label string)
func vCut(reason string)
func vObserve(name string, v any)
func vClass(c string)
func vTag(name string)
func vMapOrder(nondet bool)
func vConc(x int) int
func vIsSymbolic() bool
func vYield()
func vAtomicBegin()
func vAtomicEnd()
func vUF(name string, args ...any) uint64
func vSetField(ptr any, field string, val any)
func vGetField(ptr any, field string) any
func vIte(c bool, a, b int) int
func vDone()
func vParam(name string, def int) int
func vGo(f func())
func vWait()
func vSchedBound(n int)
func vStop()
func vRunUntilStop(f func()) bool
func vFreeVar(f any, i int) any
`

type Loaded struct {
	Prog   *ssa.Program
	HPkg   *ssa.Package
	Stubs  map[string]string
	InitOK map[string]bool
	Files  []string
}

var pkgClauseRe = regexp.MustCompile(`(?m)^package\s+(\w+)`)
var stubRe = regexp.MustCompile(`(?m)^//verif:stub\s+(\S+)\s*=>\s*(\S+)`)
var initokRe = regexp.MustCompile(`(?m)^//verif:initok\s+(\S+)`)
var initskipRe = regexp.MustCompile(`(?m)^//verif:initskip\s+(\S+)`)

// Load type-checks pkgPath (relative to repo) with the harness files overlaid
// and builds SSA for the whole dependency cone.
func Load(repo, pkgRel string, harnessFiles []string, extraOverlay map[string]string) (*Loaded, error) {
	overlay := map[string][]byte{}
	ld := &Loaded{Stubs: map[string]string{}, InitOK: map[string]bool{}}
	pkgDir := filepath.Join(repo, pkgRel)
	pkgName := ""
	for _, hf := range harnessFiles {
		b, err := os.ReadFile(hf)
		if err != nil {
			return nil, err
		}
		if m := pkgClauseRe.FindSubmatch(b); m != nil && pkgName == "" {
			pkgName = string(m[1])
		}
		for _, m := range stubRe.FindAllSubmatch(b, -1) {
			ld.Stubs[string(m[1])] = string(m[2])
		}
		for _, m := range initokRe.FindAllSubmatch(b, -1) {
			ld.InitOK["ok:"+string(m[1])] = true
		}
		for _, m := range initskipRe.FindAllSubmatch(b, -1) {
			ld.InitOK[string(m[1])] = true
		}
		dst := filepath.Join(pkgDir, "zz_verif_"+strings.TrimPrefix(filepath.Base(hf), "zz_verif_"))
		overlay[dst] = b
		ld.Files = append(ld.Files, hf)
	}
	if pkgName == "" {
		return nil, fmt.Errorf("no package clause found in harness files")
	}
	overlay[filepath.Join(pkgDir, "zz_verif_rt.go")] = []byte(fmt.Sprintf(RuntimeDecls, pkgName))
	for k, v := range extraOverlay {
		overlay[k] = []byte(v)
	}
	cfg := &packages.Config{
		Mode:       packages.LoadAllSyntax,
		Dir:        repo,
		BuildFlags: []string{"-tags=verif", "-mod=mod"},
		Overlay:    overlay,
		Env:        append(os.Environ(), "GOFLAGS=-mod=mod", "GOPROXY=off", "GOSUMDB=off", "GOTOOLCHAIN=local"),
	}
	pkgs, err := packages.Load(cfg, "./"+pkgRel)
	if err != nil {
		return nil, err
	}
	if len(pkgs) != 1 {
		return nil, fmt.Errorf("expected 1 package, got %d", len(pkgs))
	}
	var errs []string
	packages.Visit(pkgs, nil, func(p *packages.Package) {
		for _, e := range p.Errors {
			errs = append(errs, e.Error())
		}
	})
	if len(errs) > 0 {
		if len(errs) > 10 {
			errs = errs[:10]
		}
		return nil, fmt.Errorf("type errors:\n%s", strings.Join(errs, "\n"))
	}
	prog, spkgs := ssautil.AllPackages(pkgs, ssa.InstantiateGenerics)
	prog.Build()
	ld.Prog = prog
	ld.HPkg = spkgs[0]
	if ld.HPkg == nil {
		return nil, fmt.Errorf("no SSA package for %s", pkgRel)
	}
	if err := checkStubs(prog, ld.HPkg, ld.Stubs); err != nil {
		return nil, err
	}
	return ld, nil
}

var methStubRe = regexp.MustCompile(`^\((\*?)(.+)\.([A-Za-z_]\w*)\)\.([A-Za-z_]\w*)$`)

// checkStubs makes sure every //verif:stub names an existing function (an unmatched stub would be
// silently ignored, which weakens a harness without notice).
func checkStubs(prog *ssa.Program, hpkg *ssa.Package, stubs map[string]string) error {
	for name, target := range stubs {
		if target != "noop" && hpkg.Func(target) == nil {
			return fmt.Errorf("stub target %s (for %s) is not a function of the harness package", target, name)
		}
		found := false
		if m := methStubRe.FindStringSubmatch(name); m != nil {
			if pkg := prog.ImportedPackage(m[2]); pkg != nil {
				if t := pkg.Type(m[3]); t != nil {
					var T types.Type = t.Type()
					if m[1] == "*" {
						T = types.NewPointer(T)
					}
					if sel := prog.MethodSets.MethodSet(T).Lookup(pkg.Pkg, m[4]); sel != nil {
						if fn := prog.MethodValue(sel); fn != nil && funcKey(fn) == name {
							found = true
						}
					}
				}
			}
		} else if i := strings.LastIndex(name, "."); i > 0 {
			if pkg := prog.ImportedPackage(name[:i]); pkg != nil && pkg.Func(name[i+1:]) != nil {
				found = true
			}
		}
		if !found {
			return fmt.Errorf("//verif:stub %s: no such function in the program (check receiver form: value receivers are (pkg.T).M, pointer receivers (*pkg.T).M)", name)
		}
	}
	return nil
}
