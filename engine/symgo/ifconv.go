package symgo

import (
	"go/token"
	"go/types"

	"golang.org/x/tools/go/ssa"
)

// If-conversion of pure acyclic regions: when a symbolic branch leads through
// side-effect-free, non-trapping blocks to its immediate post-dominator, the
// region is evaluated under guards and phis become ite terms instead of forks.

type pdomInfo struct {
	ipdom map[*ssa.BasicBlock]*ssa.BasicBlock
}

func (w *Worker) pdomOf(fn *ssa.Function) *pdomInfo {
	if pi, ok := w.pdom[fn]; ok {
		return pi
	}
	n := len(fn.Blocks)
	// post-dominator sets via iterative bitset algorithm (functions are small)
	const exit = -1
	type set map[int]bool
	all := func() set {
		s := set{exit: true}
		for i := 0; i < n; i++ {
			s[i] = true
		}
		return s
	}
	pd := make([]set, n)
	for i := range pd {
		pd[i] = all()
	}
	changed := true
	iter := 0
	for changed && iter < 100 {
		changed = false
		iter++
		for i := n - 1; i >= 0; i-- {
			b := fn.Blocks[i]
			var ns set
			if len(b.Succs) == 0 {
				ns = set{exit: true}
			} else {
				for k, s := range b.Succs {
					if k == 0 {
						ns = set{}
						for x := range pd[s.Index] {
							ns[x] = true
						}
					} else {
						for x := range ns {
							if !pd[s.Index][x] {
								delete(ns, x)
							}
						}
					}
				}
			}
			ns[i] = true
			if len(ns) != len(pd[i]) {
				pd[i] = ns
				changed = true
			}
		}
	}
	pi := &pdomInfo{ipdom: map[*ssa.BasicBlock]*ssa.BasicBlock{}}
	for i, b := range fn.Blocks {
		// immediate post-dominator: the strict post-dominator d such that every other
		// strict post-dominator of b also post-dominates d
		var best *ssa.BasicBlock
		for d := range pd[i] {
			if d == i || d == exit {
				continue
			}
			ok := true
			for e := range pd[i] {
				if e == i || e == d {
					continue
				}
				if e == exit {
					continue
				}
				if !pd[d][e] {
					ok = false
					break
				}
			}
			if ok {
				best = fn.Blocks[d]
				break
			}
		}
		pi.ipdom[b] = best
	}
	w.pdom[fn] = pi
	return pi
}

func pureInstr(instr ssa.Instruction) bool {
	switch in := instr.(type) {
	case *ssa.Phi, *ssa.DebugRef, *ssa.ChangeType:
		return true
	case *ssa.BinOp:
		switch in.Op {
		case token.QUO, token.REM:
			if _, isF := in.X.Type().Underlying().(*types.Basic); isF {
				if b := in.X.Type().Underlying().(*types.Basic); b.Info()&types.IsFloat != 0 {
					return true
				}
			}
			if c, ok := in.Y.(*ssa.Const); ok && c.Value != nil && c.Uint64() != 0 {
				return true
			}
			return false
		case token.SHL, token.SHR:
			if isSigned(in.Y.Type()) {
				if _, ok := in.Y.(*ssa.Const); !ok {
					return false
				}
			}
			return true
		case token.EQL, token.NEQ:
			// interface comparison may panic (uncomparable dynamic type)
			if _, ok := in.X.Type().Underlying().(*types.Interface); ok {
				return false
			}
			return true
		}
		return true
	case *ssa.UnOp:
		switch in.Op {
		case token.NOT, token.SUB, token.XOR:
			return true
		case token.MUL:
			return true // load: bails out dynamically on a nil pointer
		}
		return false
	case *ssa.FieldAddr:
		return true // bails out dynamically on a nil pointer
	case *ssa.Call:
		if b, ok := in.Call.Value.(*ssa.Builtin); ok && (b.Name() == "len" || b.Name() == "cap") {
			return true
		}
		return false
	case *ssa.Convert:
		bs, ok1 := in.X.Type().Underlying().(*types.Basic)
		bd, ok2 := in.Type().Underlying().(*types.Basic)
		if ok1 && ok2 && bs.Info()&types.IsNumeric != 0 && bd.Info()&types.IsNumeric != 0 &&
			bs.Info()&types.IsComplex == 0 && bd.Info()&types.IsComplex == 0 {
			return true
		}
		return false
	case *ssa.Field:
		return true
	case *ssa.Extract:
		return true
	}
	return false
}

// tryIfConvert: converted = the branch was evaluated without forking; finished = the region ran to the function's
// Return instructions (early-return form: `if c { return a }; ...; return b` in a pure function body), fr.result is
// set and the frame is done.
func (fr *frame) tryIfConvert(instr *ssa.If, cond *Term) (converted, finished bool) {
	B := fr.block
	J := fr.w.pdomOf(fr.fn).ipdom[B]
	if J == B {
		return false, false
	}
	if J == nil {
		// no join block: every path from here ends in a Return of this function
		if fr.defers != nil || fr.fn.Recover != nil {
			return false, false
		}
		ok := fr.ifConvertRegion(instr, cond, nil)
		return ok, ok
	}
	return fr.ifConvertRegion(instr, cond, J), false
}

func (fr *frame) ifConvertRegion(instr *ssa.If, cond *Term, J *ssa.BasicBlock) bool {
	w := fr.w
	tt := w.tt
	B := fr.block
	toReturn := J == nil
	// collect region
	region := map[*ssa.BasicBlock]bool{}
	var order []*ssa.BasicBlock
	var stack []*ssa.BasicBlock
	for _, s := range B.Succs {
		if s != J {
			stack = append(stack, s)
		}
	}
	for len(stack) > 0 {
		x := stack[len(stack)-1]
		stack = stack[:len(stack)-1]
		if region[x] {
			continue
		}
		if x == B {
			return false
		}
		region[x] = true
		order = append(order, x)
		if len(order) > 64 {
			return false
		}
		for _, s := range x.Succs {
			if s != J && !region[s] {
				stack = append(stack, s)
			}
		}
	}
	// purity + terminators
	for _, x := range order {
		if len(x.Succs) == 0 && !toReturn {
			return false
		}
		for i, in := range x.Instrs {
			if i == len(x.Instrs)-1 {
				switch in.(type) {
				case *ssa.If, *ssa.Jump:
					continue
				case *ssa.Return:
					if toReturn {
						continue
					}
				}
				return false
			}
			if !pureInstr(in) {
				return false
			}
		}
	}
	// J's phis must merge scalars (checked dynamically below)
	// topological order (Kahn) over region; fail on cycles
	indeg := map[*ssa.BasicBlock]int{}
	for _, x := range order {
		for _, p := range x.Preds {
			if region[p] {
				indeg[x]++
			}
			// predecessors outside the region are not on any path from B: they get no edge guard
		}
	}
	var topo []*ssa.BasicBlock
	var ready []*ssa.BasicBlock
	for _, x := range order {
		if indeg[x] == 0 {
			ready = append(ready, x)
		}
	}
	for len(ready) > 0 {
		// deterministic: smallest index first
		mi := 0
		for i := range ready {
			if ready[i].Index < ready[mi].Index {
				mi = i
			}
		}
		x := ready[mi]
		ready = append(ready[:mi], ready[mi+1:]...)
		topo = append(topo, x)
		for _, s := range x.Succs {
			if region[s] {
				indeg[s]--
				if indeg[s] == 0 {
					ready = append(ready, s)
				}
			}
		}
	}
	if len(topo) != len(order) {
		return false
	}

	type edge struct{ from, to *ssa.BasicBlock }
	eg := map[edge]*Term{}
	addEdge := func(f, t *ssa.BasicBlock, g *Term) {
		e := edge{f, t}
		if old, ok := eg[e]; ok {
			eg[e] = tt.Or(old, g)
		} else {
			eg[e] = g
		}
	}
	addEdge(B, B.Succs[0], cond)
	addEdge(B, B.Succs[1], tt.Not(cond))

	ok := true
	// early-return form: merged results of the Return instructions reached so far
	var retVals []Value
	retSeen := false
	mergeReturn := func(g *Term, r *ssa.Return) {
		vals := make([]Value, len(r.Results))
		for i, x := range r.Results {
			vals[i] = fr.get(x)
		}
		if !retSeen {
			retSeen = true
			retVals = vals
			return
		}
		for i, v := range vals {
			vt, isT := v.(*Term)
			ot, isO := retVals[i].(*Term)
			if isT && isO {
				if vt != ot {
					retVals[i] = tt.Ite(g, vt, ot)
				}
				continue
			}
			if !sameValue(retVals[i], v) {
				ok = false
				return
			}
		}
	}
	mergePhis := func(x *ssa.BasicBlock) {
		for _, in := range x.Instrs {
			phi, isPhi := in.(*ssa.Phi)
			if !isPhi {
				break
			}
			var res Value
			var resT *Term
			first := true
			for i, p := range x.Preds {
				g, has := eg[edge{p, x}]
				if !has || g.IsFalse() {
					continue
				}
				v := fr.get(phi.Edges[i])
				if first {
					res = v
					resT, _ = v.(*Term)
					first = false
					continue
				}
				vt, isT := v.(*Term)
				if isT && resT != nil {
					resT = tt.Ite(g, vt, resT)
					res = resT
					continue
				}
				if !sameValue(res, v) {
					ok = false
					return
				}
			}
			if first {
				ok = false
				return
			}
			fr.env[phi] = res
		}
	}
	for _, x := range topo {
		// block guard
		g := tt.False
		for _, p := range x.Preds {
			if e, has := eg[edge{p, x}]; has {
				g = tt.Or(g, e)
			}
		}
		if g.IsFalse() {
			continue
		}
		mergePhis(x)
		if !ok {
			return false
		}
		for i, in := range x.Instrs {
			if _, isPhi := in.(*ssa.Phi); isPhi {
				continue
			}
			if i == len(x.Instrs)-1 {
				switch t := in.(type) {
				case *ssa.If:
					c := fr.get(t.Cond).(*Term)
					addEdge(x, x.Succs[0], tt.And(g, c))
					addEdge(x, x.Succs[1], tt.And(g, tt.Not(c)))
				case *ssa.Jump:
					addEdge(x, x.Succs[0], g)
				case *ssa.Return:
					mergeReturn(g, t)
					if !ok {
						return false
					}
				}
				continue
			}
			fr.p.steps++
			switch in := in.(type) {
			case *ssa.DebugRef:
			case *ssa.BinOp:
				fr.env[in] = fr.p.binop(in.Op, in.X.Type(), in.Y.Type(), fr.get(in.X), fr.get(in.Y))
			case *ssa.UnOp:
				if in.Op == token.MUL {
					if pv, isPtr := fr.get(in.X).(*Value); isPtr && pv == nil {
						return false // would trap: let the normal path handle it
					}
				}
				fr.env[in] = fr.unop(in, fr.get(in.X))
			case *ssa.FieldAddr:
				pv, _ := fr.get(in.X).(*Value)
				if pv == nil {
					return false
				}
				fr.env[in] = &(*pv).(Struct)[in.Field]
			case *ssa.Call:
				args := []Value{fr.get(in.Call.Args[0])}
				if pv, isPtr := args[0].(*Value); isPtr && pv == nil {
					return false
				}
				fr.env[in] = fr.w.callBuiltin(fr, in.Pos(), in.Call.Value.(*ssa.Builtin), args)
			case *ssa.Convert:
				fr.env[in] = fr.p.conv(in.Type(), in.X.Type(), fr.get(in.X))
			case *ssa.ChangeType:
				fr.env[in] = fr.get(in.X)
			case *ssa.Field:
				fr.env[in] = fr.get(in.X).(Struct)[in.Field]
			case *ssa.Extract:
				fr.env[in] = fr.get(in.Tuple).(Tuple)[in.Index]
			}
		}
	}
	if toReturn {
		if !retSeen {
			return false
		}
		w.stats.IfConv++
		switch len(retVals) {
		case 0:
		case 1:
			fr.result = retVals[0]
		default:
			fr.result = Tuple(retVals)
		}
		fr.block = nil
		return true
	}
	mergePhis(J)
	if !ok {
		return false
	}
	w.stats.IfConv++
	fr.prevBlock = B
	fr.block = J
	fr.skipPhis = true
	return true
}

func sameValue(a, b Value) bool {
	switch x := a.(type) {
	case *Term:
		y, ok := b.(*Term)
		return ok && x == y
	case *Value:
		y, ok := b.(*Value)
		return ok && x == y
	case Str:
		y, ok := b.(Str)
		return ok && x.B == nil && y.B == nil && x.S == y.S
	}
	return false
}
