package main

import (
	"encoding/json"
	"flag"
	"fmt"
	"os"
	"path/filepath"
	"sort"
	"strings"
	"time"

	"verif/engine/symgo"
)

func main() {
	repo := flag.String("repo", "/repo", "repository root")
	pkg := flag.String("pkg", "", "package directory relative to repo")
	hdir := flag.String("hdir", "", "harness directory (files zz_verif_*.go); default /verif/harness/<pkg>")
	entries := flag.String("entry", "", "comma separated harness entry functions")
	workers := flag.Int("workers", 16, "parallel workers")
	ints := flag.String("ints", "bv", "integer encoding: bv|int")
	maxPaths := flag.Int("maxpaths", 200000, "path budget")
	maxDec := flag.Int("decisions", 4000, "max symbolic decisions per path")
	maxSteps := flag.Int("steps", 20000000, "max instructions per path")
	qto := flag.Int("qtimeout", 10000, "solver timeout per query (ms)")
	deadline := flag.Duration("deadline", 30*time.Minute, "wall clock budget per harness")
	out := flag.String("out", "", "report JSON path")
	trace := flag.Bool("trace", false, "trace calls")
	verbose := flag.Bool("v", false, "verbose")
	pinned := flag.String("pinned", "", "comma separated pinned nondet values (concrete replay in the interpreter)")
	params := flag.String("param", "", "harness parameters k=v,k=v")
	shadow := flag.String("shadow", "", "shadow solver command for cross-checking (e.g. 'z3-new -in -smt2')")
	noifc := flag.Bool("noifconv", false, "disable if-conversion")
	smtlog := flag.String("smtlog", "", "write solver input of worker 0 to file")
	solverBin := flag.String("solver", "", "primary solver command (default 'z3 -in -smt2'; e.g. 'z3-new -in -smt2')")
	jobsFile := flag.String("jobs", "", "JSON file with pinned/seeded jobs to run concretely in the interpreter")
	jobsOut := flag.String("jobsout", "", "output file for job outcomes")
	grace := flag.Duration("grace", 0, "stop exploring a harness this long after its first violation not listed in -known (0 = never)")
	known := flag.String("known", "", "site|class of known findings, separated by ;; (class * = any)")
	flag.Parse()
	_ = smtlog
	knownSet := map[string]bool{}
	for _, k := range strings.Split(*known, ";;") {
		if k != "" {
			knownSet[k] = true
		}
	}

	if *hdir == "" {
		*hdir = filepath.Join("/verif/harness", *pkg)
	}
	files, _ := filepath.Glob(filepath.Join(*hdir, "*.go"))
	var hfiles []string
	for _, f := range files {
		if !strings.HasSuffix(f, "_test.go") && !strings.HasSuffix(f, "_native.go") {
			hfiles = append(hfiles, f)
		}
	}
	t0 := time.Now()
	// <hdir>/_deps/<pkg path relative to the repo>/zz_verif_*.go: verif-tagged accessor files overlaid into
	// packages the package under test depends on (exported views of unexported state; no v* API there)
	depOverlay := map[string]string{}
	depRoot := filepath.Join(*hdir, "_deps")
	filepath.Walk(depRoot, func(path string, info os.FileInfo, err error) error {
		if err == nil && !info.IsDir() && strings.HasPrefix(info.Name(), "zz_verif_") && strings.HasSuffix(path, ".go") {
			rel, _ := filepath.Rel(depRoot, path)
			if b, err := os.ReadFile(path); err == nil {
				depOverlay[filepath.Join(*repo, rel)] = string(b)
			}
		}
		return nil
	})
	ld, err := symgo.Load(*repo, *pkg, hfiles, depOverlay)
	if err != nil {
		fmt.Fprintln(os.Stderr, "LOAD ERROR:", err)
		os.Exit(2)
	}
	loadS := time.Since(t0).Seconds()
	symgo.Params = map[string]int{}
	for _, kv := range strings.Split(*params, ",") {
		if i := strings.Index(kv, "="); i > 0 {
			var v int
			fmt.Sscan(kv[i+1:], &v)
			symgo.Params[kv[:i]] = v
		}
	}
	foundNew := false
	type result struct {
		LoadSec float64                `json:"load_s"`
		Reports []*symgo.HarnessReport `json:"reports"`
		Pinned  *symgo.PathResult      `json:"pinned,omitempty"`
	}
	res := &result{LoadSec: loadS}
	exit := 0
	runJobs := func() {
		b, err := os.ReadFile(*jobsFile)
		if err != nil {
			fmt.Fprintln(os.Stderr, "ERROR:", err)
			os.Exit(2)
		}
		var jobs []symgo.Job
		if err := json.Unmarshal(b, &jobs); err != nil {
			fmt.Fprintln(os.Stderr, "ERROR:", err)
			os.Exit(2)
		}
		cfg := &symgo.Config{MaxDecisions: *maxDec, MaxSteps: *maxSteps, MaxDepth: 400, QueryTimeout: *qto,
			IntMode: *ints == "int", Stubs: ld.Stubs, InitSkip: ld.InitOK, NoIfConv: *noifc}
		outs, err := symgo.RunJobs(ld.Prog, ld.HPkg, cfg, jobs)
		if err != nil {
			fmt.Fprintln(os.Stderr, "ERROR:", err)
			os.Exit(2)
		}
		ob, _ := json.Marshal(outs)
		os.WriteFile(*jobsOut, ob, 0o644)
	}
	if *jobsFile != "" && *entries == "" {
		runJobs()
		return
	}

	for _, e := range strings.Split(*entries, ",") {
		cfg := &symgo.Config{
			Entry: e, MaxDecisions: *maxDec, MaxSteps: *maxSteps, MaxDepth: 400,
			QueryTimeout: *qto, IntMode: *ints == "int", Trace: *trace,
			Stubs: ld.Stubs, InitSkip: ld.InitOK, NoIfConv: *noifc, SmtLog: *smtlog,
		}
		if *shadow != "" {
			cfg.ShadowBin = strings.Fields(*shadow)
		}
		if *solverBin != "" {
			cfg.SolverBin = strings.Fields(*solverBin)
		}
		if *pinned != "" || flag.Lookup("pinned").Value.String() != "" {
			vals := []string{}
			if *pinned != "-" {
				vals = strings.Split(*pinned, ",")
			}
			pr, err := symgo.RunPinned(ld.Prog, ld.HPkg, cfg, vals)
			if err != nil {
				fmt.Fprintln(os.Stderr, "ERROR:", err)
				os.Exit(2)
			}
			res.Pinned = pr
			fmt.Printf("pinned %s: end=%s reason=%s violations=%d observed=%v\n", e, pr.End, pr.Reason, len(pr.Violations), pr.Observed)
			for _, v := range pr.Violations {
				fmt.Printf("  violation %s: %s\n", v.Site, v.Msg)
			}
			continue
		}
		dl := *deadline
		if foundNew && *grace > 0 && (dl == 0 || dl > 2*time.Minute) {
			// an earlier harness of this run already decided the property (violated): the rest gets two minutes each
			dl = 2 * time.Minute
		}
		rep, err := symgo.Explore(ld.Prog, ld.HPkg, cfg, symgo.ExploreOpts{Workers: *workers, MaxPaths: *maxPaths, Deadline: dl, Verbose: *verbose, Grace: *grace, Known: knownSet})
		if err != nil {
			fmt.Fprintln(os.Stderr, "ERROR:", err)
			os.Exit(2)
		}
		res.Reports = append(res.Reports, rep)
		if !strings.HasSuffix(e, "_twin") {
			for _, v := range rep.Violations {
				if !knownSet[v.Site+"|"+v.Class] && !knownSet[v.Site+"|*"] && !knownSet[v.Site+"|"] {
					foundNew = true
				}
			}
		}
		fmt.Printf("%s: paths=%d ok=%d infeasible=%d unsupported=%d budget=%d cut=%d solverfail=%d internal=%d panicpaths=%d forks=%d asserts=%d discharged=%d queries=%d solver=%.1fs ifconv=%d wall=%.1fs violations=%d incomplete=%v\n",
			e, rep.Paths, rep.PathsOK, rep.Infeasible, rep.Unsupported, rep.Budget, rep.Cuts, rep.SolverFail, rep.Internal, rep.PanicPaths, rep.Forks, rep.Asserts, rep.Discharged, rep.Queries, rep.SolverSec, rep.IfConv, rep.WallSec, len(rep.Violations), rep.Incomplete)
		for r, n := range rep.Reasons {
			fmt.Printf("  reason[%d]: %s\n", n, r)
		}
		for _, v := range rep.Violations {
			fmt.Printf("  VIOL site=%s class=%s msg=%s model=%v\n", v.Site, v.Class, v.Msg, v.Model)
		}
		if *verbose {
			fmt.Printf("  covers: %v\n", rep.Covers)
			if os.Getenv("SYMGO_FORKHIST") != "" {
				type kv struct {
					k string
					n int
				}
				var hs []kv
				for k, n := range rep.ForkHist {
					hs = append(hs, kv{k, n})
				}
				sort.Slice(hs, func(i, j int) bool { return hs[i].n > hs[j].n })
				for i, h := range hs {
					if i >= 20 {
						break
					}
					fmt.Printf("  forks[%d]: %s\n", h.n, h.k)
				}
			}
		}
		if len(rep.Violations) > 0 {
			exit = 1
		}
	}
	if *jobsFile != "" {
		runJobs()
	}
	if *out != "" {
		b, _ := json.MarshalIndent(res, "", " ")
		os.WriteFile(*out, b, 0o644)
	}
	os.Exit(exit)
}
