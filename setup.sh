#!/bin/sh
# builds the symgo engine from files on disk only (offline)
set -e
cd "$(dirname "$0")/engine"
export GOFLAGS=-mod=mod GOPROXY=off GOSUMDB=off GOTOOLCHAIN=local
mkdir -p ../bin
go build -o ../bin/symgo ./cmd/symgo
# engine self-test (native build vs interpreter on seeded vectors); informational, never fatal for setup
(cd .. && ./check selftest 20 2>&1 | tail -2) || true
