#!/bin/sh
# builds the symgo engine from files on disk only (offline)
set -e
cd "$(dirname "$0")/engine"
export GOFLAGS=-mod=mod GOPROXY=off GOSUMDB=off GOTOOLCHAIN=local
mkdir -p ../bin
go build -o ../bin/symgo ./cmd/symgo
